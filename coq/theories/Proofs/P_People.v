(* Proofs about population bookkeeping (L2): growth, alignment, active set, deaths. *)
From SS Require Import Model.Prelude Gen.Gen_Arr Model.L2_People Proofs.P_Arr.
From Coq Require Import Lia List Permutation Sorted QArith.
Local Open Scope nat_scope.

Definition arr_ok (n : nat) (a : arr) : Prop :=
  used a = n /\ n <= len_tot a /\ (forall i, i < n -> get_raw (raw a) i <> G).

Definition vals_ok (k : nat) (vals : option (list Q)) : Prop :=
  match vals with Some vs => length vs = k | None => True end.

Lemma existsb_seq j a k : existsb (Nat.eqb j) (seq a k) = andb (Nat.leb a j) (Nat.ltb j (a + k)).
Proof.
  revert a; induction k as [|k IH]; intros a; cbn [seq existsb].
  - destruct (Nat.leb_spec a j), (Nat.ltb_spec j (a + 0)); cbn; try reflexivity; lia.
  - rewrite IH. destruct (Nat.eqb_spec j a), (Nat.leb_spec (S a) j), (Nat.ltb_spec j (S a + k)),
      (Nat.leb_spec a j), (Nat.ltb_spec j (a + S k)); cbn; try reflexivity; lia.
Qed.

Lemma find_seq j a vs : forall k, length vs = k ->
  find (fun p : nat * Q => Nat.eqb (fst p) j) (combine (seq a k) vs) =
    if andb (Nat.leb a j) (Nat.ltb j (a + k)) then Some (j, nth (j - a) vs 0%Q) else None.
Proof.
  revert a; induction vs as [|v vs IH]; intros a k L; subst k; cbn [length seq combine find].
  - destruct (Nat.leb_spec a j), (Nat.ltb_spec j (a + 0)); cbn; try reflexivity; lia.
  - cbn [fst]. destruct (Nat.eqb_spec a j) as [->|N].
    + replace (j - j) with 0 by lia. cbn [nth]. destruct (Nat.leb_spec j j), (Nat.ltb_spec j (j + S (length vs))); cbn; try reflexivity; lia.
    + rewrite (IH (S a) (length vs) eq_refl).
      destruct (Nat.leb_spec (S a) j), (Nat.ltb_spec j (S a + length vs)), (Nat.leb_spec a j), (Nat.ltb_spec j (a + S (length vs))); cbn; try reflexivity; try lia.
      replace (j - a) with (S (j - S a)) by lia. reflexivity.
Qed.

(* Arr.grow for the next k identifiers: alignment kept, every old value preserved (also across
   reallocation), new cells defined: provided values, the constant default, or nan *)
Lemma arr_grow_spec a n k vals : arr_ok n a -> vals_ok k vals ->
  let a' := arr_grow a (seq n k) vals in
  arr_ok (n + k) a' /\
  (forall i, i < n -> get_raw (raw a') i = get_raw (raw a) i) /\
  (forall j, j < k -> get_raw (raw a') (n + j) =
     V (match vals with Some vs => nth j vs 0%Q | None => match dflt a with Some d => d | None => nanv a end end)) /\
  dflt a' = dflt a /\ nanv a' = nanv a.
Proof.
  intros (Hu & Ht & Hd) Hv a'. unfold a', arr_grow. rewrite Hu, seq_length.
  unfold need_realloc_gen, n_grow_gen, fill_tail_gen, Ngtb.
  set (r1 := if Nat.ltb (len_tot a) (n + k) then _ else raw a).
  assert (R1 : n + k <= length r1 /\ (forall i, i < n -> get_raw r1 i = get_raw (raw a) i)).
  { unfold r1. destruct (Nat.ltb_spec (len_tot a) (n + k)) as [L|L]; [|split; [exact L|reflexivity]].
    set (ng := Nat.max k (len_tot a / 2)).
    assert (Hng : k <= ng) by (unfold ng; lia).
    destruct (Nat.ltb k ng).
    - split; [rewrite set_const_length, app_length, repeat_length; unfold len_tot in *; lia|].
      intros i Hi. rewrite get_set_const, existsb_seq.
      destruct (Nat.leb_spec (n + k) i); [lia|]. cbn [andb]. apply get_app_l. unfold len_tot in Ht. lia.
    - split; [rewrite app_length, repeat_length; unfold len_tot in *; lia|].
      intros i Hi. apply get_app_l. unfold len_tot in Ht. lia. }
  destruct R1 as [Rl Ro].
  destruct vals as [vs|]; cbn [upd_raw raw used dflt nanv].
  - cbn in Hv.
    assert (GS : forall j, get_raw (set_many r1 (seq n k) vs) j =
                 if andb (Nat.leb n j) (Nat.ltb j (n + k)) then V (nth (j - n) vs 0%Q) else get_raw r1 j).
    { intros j. rewrite get_set_many; [|apply seq_NoDup|rewrite seq_length; exact Hv|intros u Hu'; apply in_seq in Hu'; lia].
      rewrite (find_seq j n vs k Hv). destruct (andb _ _); reflexivity. }
    repeat split.
    + unfold len_tot; cbn. rewrite set_many_length. exact Rl.
    + intros i Hi. unfold upd_raw; cbn [raw]. rewrite GS. destruct (andb (Nat.leb n i) (Nat.ltb i (n + k))) eqn:E; [discriminate|].
      destruct (Nat.leb_spec n i), (Nat.ltb_spec i (n + k)); cbn in E; try discriminate; try lia.
      rewrite Ro by lia. apply Hd. lia.
    + intros i Hi. unfold upd_raw; cbn [raw]. rewrite GS. destruct (Nat.leb_spec n i); [lia|]. cbn. apply Ro. exact Hi.
    + intros j Hj. unfold upd_raw; cbn [raw]. rewrite GS. destruct (Nat.leb_spec n (n + j)), (Nat.ltb_spec (n + j) (n + k)); try lia. cbn.
      replace (n + j - n) with j by lia. reflexivity.
  - set (dv := match dflt a with Some d => d | None => nanv a end).
    assert (GS : forall j, get_raw (set_const r1 (seq n k) dv) j =
                 if andb (Nat.leb n j) (Nat.ltb j (n + k)) then V dv else get_raw r1 j).
    { intros j. rewrite get_set_const, existsb_seq.
      destruct (Nat.leb_spec n j), (Nat.ltb_spec j (n + k)), (Nat.ltb_spec j (length r1)); cbn; try reflexivity; lia. }
    repeat split.
    + unfold len_tot; cbn. rewrite set_const_length. exact Rl.
    + intros i Hi. unfold upd_raw; cbn [raw]. rewrite GS. destruct (andb (Nat.leb n i) (Nat.ltb i (n + k))) eqn:E; [discriminate|].
      destruct (Nat.leb_spec n i), (Nat.ltb_spec i (n + k)); cbn in E; try discriminate; try lia.
      rewrite Ro by lia. apply Hd. lia.
    + intros i Hi. unfold upd_raw; cbn [raw]. rewrite GS. destruct (Nat.leb_spec n i); [lia|]. cbn. apply Ro. exact Hi.
    + intros j Hj. unfold upd_raw; cbn [raw]. rewrite GS. destruct (Nat.leb_spec n (n + j)), (Nat.ltb_spec (n + j) (n + k)); try lia. reflexivity.
Qed.

(* ------------------------------------------------------------------ the People invariant *)
Record Inv (p : ppl) : Prop := {
  i_uid : arr_ok (n_uid p) (uidarr p);
  i_slot : arr_ok (n_uid p) (slotarr p);
  i_parent : arr_ok (n_uid p) (parent p);
  i_alive : arr_ok (n_uid p) (alive p);
  i_dead : arr_ok (n_uid p) (ti_dead p);
  i_others : Forall (arr_ok (n_uid p)) (others p);
  i_dense : forall i, i < n_uid p -> get_raw (raw (uidarr p)) i = V (natq i);     (* uid.raw = 0,1,2,... *)
  i_nodup : NoDup (auids p);
  i_range : forall u, In u (auids p) -> u < n_uid p }.

Definition op_ok (p : ppl) (o : pop) : Prop :=
  match o with
  | PGrow n s v => (match s with Some sl => length sl = n | None => True end) /\
                   Forall (vals_ok n) v
  | PRequestDeath us => forall u, In u us -> u < n_uid p
  | PRegister d nq v => vals_ok (n_uid p) v
  | _ => True
  end.

Lemma set_const_ok n a us v : arr_ok n a -> arr_ok n (upd_raw a (set_const (raw a) us v) (used a)).
Proof.
  intros (Hu & Ht & Hd). repeat split.
  - exact Hu.
  - unfold len_tot in *. cbn [raw upd_raw]. rewrite set_const_length. exact Ht.
  - intros i Hi. unfold upd_raw; cbn [raw]. rewrite get_set_const. destruct (andb _ _); [discriminate|apply Hd; exact Hi].
Qed.

Lemma Forall_combine_grow n k (l : list arr) (vs : list (option (list Q))) : Forall (arr_ok n) l -> Forall (vals_ok k) vs ->
  Forall (arr_ok (n + k)) (map (fun av => arr_grow (fst av) (seq n k) (snd av)) (combine l (vs ++ repeat None (length l)))).
Proof.
  intros Hl Hv. apply Forall_forall. intros x Hx. apply in_map_iff in Hx as [[a v] [<- Hin]]. cbn [fst snd].
  assert (Ha : arr_ok n a) by (rewrite Forall_forall in Hl; apply Hl; eapply in_combine_l; exact Hin).
  assert (Hvv : vals_ok k v).
  { apply in_combine_r in Hin. apply in_app_or in Hin as [H|H]; [rewrite Forall_forall in Hv; apply Hv; exact H|].
    apply repeat_spec in H; subst; exact I. }
  destruct (arr_grow_spec a n k v Ha Hvv) as [H _]. exact H.
Qed.

Lemma nodup_app {A} (l1 l2 : list A) : NoDup l1 -> NoDup l2 -> (forall x, In x l1 -> In x l2 -> False) -> NoDup (l1 ++ l2).
Proof.
  induction l1 as [|a l1 IH]; intros N1 N2 D; cbn; [exact N2|]. inversion N1; subst. constructor.
  - intros Hin. apply in_app_or in Hin as [H|H]; [contradiction|]. apply (D a); [left; reflexivity|exact H].
  - apply IH; auto. intros x Hx. apply D. right; exact Hx.
Qed.

Theorem inv_init n : Inv (init_people n).
Proof.
  assert (E : forall d nq, arr_ok 0 (new_arr d nq)) by (intros; repeat split; cbn; try lia; intros; lia).
  unfold init_people.
  pose proof (arr_grow_spec (new_arr None (-1 # 1)) 0 n (Some (map natq (seq 0 n))) (E _ _) ltac:(cbn; rewrite map_length, seq_length; reflexivity)) as (U1 & _ & U3 & _).
  pose proof (arr_grow_spec (new_arr None (-1 # 1)) 0 n None (E _ _) I) as (P1 & _).
  pose proof (arr_grow_spec (new_arr (Some 1%Q) 0%Q) 0 n None (E _ _) I) as (A1 & _).
  pose proof (arr_grow_spec (new_arr None nanq) 0 n None (E _ _) I) as (D1 & _).
  assert (NU : n_uid (mkPpl (seq 0 n) (arr_grow (new_arr None (-1 # 1)) (seq 0 n) (Some (map natq (seq 0 n))))
      (arr_grow (new_arr None (-1 # 1)) (seq 0 n) (Some (map natq (seq 0 n)))) (arr_grow (new_arr None (-1 # 1)) (seq 0 n) None)
      (arr_grow (new_arr (Some 1%Q) 0%Q) (seq 0 n) None) (arr_grow (new_arr None nanq) (seq 0 n) None) [] 0) = n).
  { unfold n_uid. cbn [uidarr]. destruct U1 as [U _]. exact U. }
  constructor; rewrite ?NU; cbn [uidarr slotarr parent alive ti_dead others auids]; auto.
  - intros i Hi. specialize (U3 i Hi). change (0 + i) with i in U3. rewrite U3. f_equal.
    rewrite (nth_indep _ 0%Q (natq 0)) by (rewrite map_length, seq_length; exact Hi). rewrite map_nth, seq_nth by exact Hi. reflexivity.
  - apply seq_NoDup.
  - intros u Hu. apply in_seq in Hu. lia.
Qed.

Lemma n_uid_grow p n s v : Inv p -> n <> 0 -> n_uid (fst (grow p n s v)) = n_uid p + n.
Proof.
  intros I N. unfold grow. destruct (Nat.eqb_spec n 0); [contradiction|]. cbn [fst n_uid uidarr].
  destruct (arr_grow_spec (uidarr p) (n_uid p) n (Some (map natq (seq (n_uid p) n))) (i_uid p I)
              ltac:(cbn; rewrite map_length, seq_length; reflexivity)) as ((U & _) & _). exact U.
Qed.

(* every operation preserves the invariant *)
Theorem inv_step p o : Inv p -> op_ok p o -> Inv (pstep p o).
Proof.
  intros I Hok. destruct o as [n s v|us| | | |d nq v]; cbn [pstep].
  - (* grow *)
    destruct Hok as [Hs Hv]. destruct (Nat.eq_dec n 0) as [->|N]; [unfold grow; cbn; exact I|].
    pose proof (n_uid_grow p n s v I N) as NU. unfold grow in *. destruct (Nat.eqb_spec n 0); [contradiction|]. cbn [fst] in *.
    set (new := seq (n_uid p) n) in *.
    assert (Ls : vals_ok n (Some (map natq match s with Some s0 => s0 | None => new end))).
    { cbn. rewrite map_length. destruct s; [exact Hs|unfold new; apply seq_length]. }
    assert (Lu : vals_ok n (Some (map natq new))) by (cbn; unfold new; rewrite map_length, seq_length; reflexivity).
    destruct (arr_grow_spec _ _ n _ (i_uid p I) Lu) as (U1 & U2 & U3 & _).
    destruct (arr_grow_spec _ _ n _ (i_slot p I) Ls) as (S1 & _).
    pose proof (arr_grow_spec _ _ n None (i_parent p I) Logic.I) as (P1 & _).
    pose proof (arr_grow_spec _ _ n None (i_alive p I) Logic.I) as (A1 & _).
    pose proof (arr_grow_spec _ _ n None (i_dead p I) Logic.I) as (D1 & _).
    constructor; rewrite ?NU; cbn [uidarr slotarr parent alive ti_dead others auids]; auto.
    + apply Forall_combine_grow; [exact (i_others p I)|exact Hv].
    + intros i Hi. destruct (Nat.lt_ge_cases i (n_uid p)) as [L|L].
      * rewrite U2 by exact L. apply (i_dense p I). exact L.
      * replace i with (n_uid p + (i - n_uid p)) by lia. rewrite U3 by lia.
        f_equal. unfold new. rewrite (nth_indep _ 0%Q (natq 0)) by (rewrite map_length, seq_length; lia).
        rewrite map_nth, seq_nth by lia. try (f_equal; lia).
    + apply nodup_app; [exact (i_nodup p I)|apply seq_NoDup|].
      intros x Hx Hn. apply (i_range p I) in Hx. apply in_seq in Hn. lia.
    + intros u Hu. apply in_app_or in Hu as [Hu|Hu]; [apply (i_range p I) in Hu; lia|apply in_seq in Hu; lia].
  - (* request_death *)
    unfold request_death. constructor; cbn [n_uid uidarr slotarr parent alive ti_dead others auids]; try apply I.
    apply set_const_ok. exact (i_dead p I).
  - (* step_die *)
    unfold step_die. cbn [fst]. constructor; cbn [n_uid uidarr slotarr parent alive ti_dead others auids]; try apply I.
    + apply set_const_ok. exact (i_alive p I).
    + apply set_const_ok. exact (i_dead p I).
  - (* remove_dead *)
    unfold remove_dead. constructor; cbn [n_uid uidarr slotarr parent alive ti_dead others auids]; try apply I.
    + apply NoDup_filter. exact (i_nodup p I).
    + intros u Hu. apply filter_In in Hu as [Hu _]. apply (i_range p I). exact Hu.
  - unfold tick. constructor; cbn [n_uid uidarr slotarr parent alive ti_dead others auids]; apply I.
  - (* late registration: grown to the current identifier space at once *)
    unfold register. constructor; cbn [n_uid uidarr slotarr parent alive ti_dead others auids]; try apply I.
    apply Forall_app. split; [exact (i_others p I)|]. constructor; [|constructor].
    assert (E : arr_ok 0 (mkArr [] 0 d nq)) by (repeat split; cbn; try lia; intros; lia).
    destruct (arr_grow_spec _ 0 (n_uid p) v E Hok) as (H & _). exact H.
Qed.

(* ------------------------------------------------------------------ identifiers *)
Theorem grow_ids_dense p n s v : snd (grow p n s v) = if Nat.eqb n 0 then [] else seq (n_uid p) n.
Proof. unfold grow. destruct (Nat.eqb n 0); reflexivity. Qed.

Theorem grow_active p n s v : auids (fst (grow p n s v)) = auids p ++ (if Nat.eqb n 0 then [] else seq (n_uid p) n).
Proof. unfold grow. destruct (Nat.eqb n 0); cbn; [rewrite app_nil_r|]; reflexivity. Qed.

Theorem n_uid_monotone p o : Inv p -> n_uid p <= n_uid (pstep p o).
Proof.
  intros I. destruct o as [n s v|us| | | |d nq v]; cbn [pstep]; try (apply Nat.eq_le_incl; reflexivity).
  destruct (Nat.eq_dec n 0) as [->|N]; [apply Nat.eq_le_incl; reflexivity|]. rewrite n_uid_grow by assumption. lia.
Qed.

(* ------------------------------------------------------------------ deaths *)
Lemma alive_after_grow p n s v u : Inv p -> u < n_uid p -> is_alive (fst (grow p n s v)) u = is_alive p u.
Proof.
  intros I Hu. unfold grow. destruct (Nat.eqb n 0); [reflexivity|]. unfold is_alive. cbn [fst alive].
  destruct (arr_grow_spec _ _ n None (i_alive p I) Logic.I) as (_ & H & _). rewrite H by exact Hu. reflexivity.
Qed.

(* death is permanent: no operation makes a dead agent alive again *)
Theorem death_permanent p o u : Inv p -> u < n_uid p -> is_alive p u = false -> is_alive (pstep p o) u = false.
Proof.
  intros I Hu Hd. destruct o as [n s v|us| | | |d nq v]; cbn [pstep]; try exact Hd.
  - rewrite alive_after_grow by assumption. exact Hd.
  - unfold step_die, is_alive in *. cbn [fst alive raw upd_raw]. rewrite get_set_const.
    destruct (andb _ _); [reflexivity|exact Hd].
Qed.

Definition nan_free (p : ppl) : Prop := ~ (inject_Z (ti p) == nanv (ti_dead p))%Q.

(* a death requested before the death-resolution phase is carried out at that phase *)
Theorem death_same_step p us u : Inv p -> nan_free p -> (forall x, In x us -> x < n_uid p) -> In u (auids p) -> In u us ->
  let r := step_die (request_death p us) in In u (snd r) /\ is_alive (fst r) u = false.
Proof.
  intros I NF B Ha Hu r. unfold r, step_die. cbn [fst snd].
  assert (Hdue : due (request_death p us) u = true).
  { unfold due, request_death. cbn [ti_dead raw upd_raw nanv ti]. rewrite get_set_const.
    assert (E : existsb (Nat.eqb u) us = true) by (apply existsb_exists; exists u; split; [exact Hu|apply Nat.eqb_refl]).
    rewrite E. destruct (i_dead p I) as (Ud & Td & _). unfold len_tot in Td.
    destruct (Nat.ltb_spec u (length (raw (ti_dead p)))); [|pose proof (B u Hu); lia]. cbn [andb].
    apply andb_true_intro. split.
    - unfold nan_free in NF. destruct (Qeq_bool (inject_Z (ti p)) (nanv (ti_dead p))) eqn:X; [apply Qeq_bool_iff in X; contradiction|reflexivity].
    - unfold death_due_gen, Qleb. apply Qle_bool_iff. apply Qle_refl. }
  split.
  - apply filter_In. split; [exact Ha|exact Hdue].
  - unfold is_alive. cbn [alive raw upd_raw]. rewrite get_set_const.
    assert (E : existsb (Nat.eqb u) (filter (due (request_death p us)) (auids (request_death p us))) = true).
    { apply existsb_exists. exists u. split; [apply filter_In; split; [exact Ha|exact Hdue]|apply Nat.eqb_refl]. }
    rewrite E. destruct (i_alive p I) as (Ua & Ta & _). unfold len_tot in Ta. cbn [request_death alive].
    pose proof (B u Hu). destruct (Nat.ltb_spec u (length (raw (alive p)))); [reflexivity|lia].
Qed.

(* a death requested after the death-resolution phase of step t is carried out at the next one *)
Theorem death_next_step p us u : Inv p -> nan_free p -> (forall x, In x us -> x < n_uid p) -> In u (auids p) -> In u us ->
  is_alive p u = true ->
  let r := step_die (tick (remove_dead (request_death p us))) in In u (snd r) /\ is_alive (fst r) u = false.
Proof.
  intros I NF B Ha Hu Hal r. unfold r, step_die. cbn [fst snd].
  set (q := tick (remove_dead (request_death p us))).
  assert (Hq : In u (auids q)).
  { unfold q, tick, remove_dead. cbn [auids]. apply filter_In. split; [exact Ha|]. exact Hal. }
  assert (Hdue : due q u = true).
  { unfold due, q, tick, remove_dead, request_death. cbn [ti_dead raw upd_raw nanv ti]. rewrite get_set_const.
    assert (E : existsb (Nat.eqb u) us = true) by (apply existsb_exists; exists u; split; [exact Hu|apply Nat.eqb_refl]).
    rewrite E. destruct (i_dead p I) as (Ud & Td & _). unfold len_tot in Td.
    destruct (Nat.ltb_spec u (length (raw (ti_dead p)))); [|pose proof (B u Hu); lia]. cbn [andb].
    apply andb_true_intro. split.
    - unfold nan_free in NF. destruct (Qeq_bool (inject_Z (ti p)) (nanv (ti_dead p))) eqn:X; [apply Qeq_bool_iff in X; contradiction|reflexivity].
    - unfold death_due_gen, Qleb. apply Qle_bool_iff. rewrite <- Zle_Qle. lia. }
  split.
  - apply filter_In. split; assumption.
  - unfold is_alive. cbn [alive raw upd_raw]. rewrite get_set_const.
    assert (E : existsb (Nat.eqb u) (filter (due q) (auids q)) = true).
    { apply existsb_exists. exists u. split; [apply filter_In; split; assumption|apply Nat.eqb_refl]. }
    rewrite E. destruct (i_alive p I) as (Ua & Ta & _). unfold len_tot in Ta.
    pose proof (B u Hu). unfold q, tick, remove_dead, request_death. cbn [alive].
    destruct (Nat.ltb_spec u (length (raw (alive p)))); [reflexivity|lia].
Qed.

(* the active population after removal is exactly the agents that have not died *)
Theorem active_after_removal p : auids (remove_dead p) = filter (is_alive p) (auids p).
Proof. reflexivity. Qed.

Theorem removed_never_active_again p o u : Inv p -> ~ In u (auids p) -> u < n_uid p -> ~ In u (auids (pstep p o)).
Proof.
  intros I Hn Hu. destruct o as [n s v|us| | | |d nq v]; cbn [pstep]; try exact Hn.
  - rewrite grow_active. intros H. apply in_app_or in H as [H|H]; [contradiction|].
    destruct (Nat.eqb n 0); [destruct H|]. apply in_seq in H. lia.
  - unfold remove_dead. cbn [auids]. intros H. apply filter_In in H as [H _]. contradiction.
Qed.

(* number alive: deaths carried out at the resolution phase reduce it by exactly the number of agents due *)
Definition n_alive (p : ppl) : nat := length (filter (is_alive p) (auids p)).

Lemma filter_split {A} (f g : A -> bool) l : length (filter f l) = length (filter (fun x => andb (f x) (g x)) l) + length (filter (fun x => andb (f x) (negb (g x))) l).
Proof. induction l as [|a l IH]; cbn; [reflexivity|]. destruct (f a), (g a); cbn; lia. Qed.

Theorem step_die_balance p : Inv p ->
  n_alive p = n_alive (fst (step_die p)) + length (filter (is_alive p) (snd (step_die p))).
Proof.
  intros I. unfold n_alive, step_die. cbn [fst snd auids].
  rewrite (filter_split (is_alive p) (due p) (auids p)).
  rewrite Nat.add_comm. f_equal.
  - apply f_equal. apply filter_ext_in. intros u Hu. unfold is_alive at 2. cbn [alive raw upd_raw]. rewrite get_set_const.
    destruct (i_alive p I) as (_ & Ta & _). unfold len_tot in Ta. pose proof (i_range p I u Hu).
    destruct (Nat.ltb_spec u (length (raw (alive p)))); [|lia]. rewrite andb_true_r.
    destruct (existsb (Nat.eqb u) (filter (due p) (auids p))) eqn:E.
    + apply existsb_exists in E as [x [Hx Ex]]. apply Nat.eqb_eq in Ex; subst. apply filter_In in Hx as [_ Hd]. rewrite Hd. cbn. rewrite andb_false_r. reflexivity.
    + assert (Hdf : due p u = false).
      { destruct (due p u) eqn:D; [|reflexivity]. exfalso.
        assert (X : existsb (Nat.eqb u) (filter (due p) (auids p)) = true) by (apply existsb_exists; exists u; split; [apply filter_In; split; assumption|apply Nat.eqb_refl]). congruence. }
      rewrite Hdf. cbn. rewrite andb_true_r. reflexivity.
  - generalize (auids p). intros l. induction l as [|a l IH]; cbn; [reflexivity|].
    destruct (due p a) eqn:D; cbn; [destruct (is_alive p a); cbn; rewrite ?IH; reflexivity|].
    rewrite andb_false_r. exact IH.
Qed.

(* every history of well-formed operations keeps the invariant *)
Fixpoint ops_ok (p : ppl) (ops : list pop) : Prop :=
  match ops with [] => True | o :: t => op_ok p o /\ ops_ok (pstep p o) t end.
Theorem inv_run ops : forall p, Inv p -> ops_ok p ops -> Inv (prun p ops).
Proof. induction ops as [|o t IH]; intros p I H; cbn; [exact I|]. destruct H as [H1 H2]. apply IH; [apply inv_step; assumption|exact H2]. Qed.

(* ---- the recorded flow of deaths is exactly the deaths carried out in the step (step_die stamps ti_dead with the step at which it kills) *)
Theorem recorded_deaths_are_executed_deaths p : Inv p -> Qeq_bool (inject_Z (ti p)) (nanv (ti_dead p)) = false ->
  recorded_new_deaths (fst (step_die p)) = length (snd (step_die p)).
Proof.
  intros I Hnan. unfold recorded_new_deaths, step_die. cbn [fst snd auids ti_dead raw upd_raw ti].
  f_equal. apply filter_ext_in. intros u Hu. rewrite get_set_const.
  destruct (i_dead p I) as (_ & Td & _). unfold len_tot in Td. pose proof (i_range p I u Hu) as Hr.
  destruct (Nat.ltb_spec u (length (raw (ti_dead p)))) as [_|Hge]; [|lia]. rewrite andb_true_r.
  destruct (existsb (Nat.eqb u) (filter (due p) (auids p))) eqn:E.
  - apply existsb_exists in E as [x [Hx Ex]]. apply Nat.eqb_eq in Ex; subst x. apply filter_In in Hx as [_ Hd]. rewrite Hd.
    apply Qeq_bool_iff. reflexivity.
  - assert (Hdf : due p u = false).
    { destruct (due p u) eqn:D; [|reflexivity]. exfalso.
      assert (X : existsb (Nat.eqb u) (filter (due p) (auids p)) = true) by (apply existsb_exists; exists u; split; [apply filter_In; split; assumption|apply Nat.eqb_refl]). congruence. }
    rewrite Hdf. unfold due in Hdf. destruct (get_raw (raw (ti_dead p)) u) as [q|]; [|reflexivity].
    destruct (Qeq_bool q (inject_Z (ti p))) eqn:Eq; [|reflexivity]. exfalso.
    apply Qeq_bool_iff in Eq.
    assert (N : Qeq_bool q (nanv (ti_dead p)) = false).
    { destruct (Qeq_bool q (nanv (ti_dead p))) eqn:En; [|reflexivity]. apply Qeq_bool_iff in En.
      assert (Qeq_bool (inject_Z (ti p)) (nanv (ti_dead p)) = true) by (apply Qeq_bool_iff; rewrite <- Eq; exact En). congruence. }
    rewrite N in Hdf. cbn [negb andb] in Hdf. unfold death_due_gen, Qleb in Hdf.
    assert (Qle_bool q (inject_Z (ti p)) = true) by (apply Qle_bool_iff; rewrite Eq; apply Qle_refl). congruence.
Qed.

Lemma filter_all_true {A} (f : A -> bool) (l : list A) : (forall x, In x l -> f x = true) -> filter f l = l.
Proof. induction l as [|a l IH]; intros H; cbn; [reflexivity|]. rewrite (H a (or_introl eq_refl)). f_equal. apply IH. intros x Hx. apply H. right. exact Hx. Qed.

(* hence the balance of the property: alive before = alive after + recorded deaths, when the step starts with living active agents only *)
Theorem alive_balance_with_recorded_deaths p : Inv p -> Qeq_bool (inject_Z (ti p)) (nanv (ti_dead p)) = false ->
  (forall u, In u (auids p) -> is_alive p u = true) ->
  n_alive p = n_alive (fst (step_die p)) + recorded_new_deaths (fst (step_die p)).
Proof.
  intros I Hnan Hal. rewrite (recorded_deaths_are_executed_deaths p I Hnan). rewrite (step_die_balance p I) at 1. f_equal.
  rewrite filter_all_true; [reflexivity|]. intros u Hu. unfold step_die in Hu. cbn [snd] in Hu. apply filter_In in Hu as [Hu _]. exact (Hal u Hu).
Qed.
