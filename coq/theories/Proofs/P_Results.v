From SS Require Import Model.Prelude Gen.Gen_Results Model.L5_Results.
From Coq Require Import Lia List QArith Lqa.
Local Open Scope nat_scope.

Lemma qsum_app a b : (qsum (a ++ b) == qsum a + qsum b)%Q.
Proof. unfold qsum. induction a as [|x a IH]; cbn [app fold_right]; [ring|]. rewrite IH. ring. Qed.

Lemma firstn_S_nth (l : list Q) n : n < length l -> firstn (S n) l = firstn n l ++ [nth n l 0%Q].
Proof.
  revert n; induction l as [|x l IH]; intros n H; cbn in H; [lia|]. destruct n as [|n]; [reflexivity|].
  cbn [firstn nth app]. f_equal. apply IH. lia.
Qed.

(* a series recorded with upper bound ti+1 is the running sum including the current step *)
Theorem cum_incl_is_running_sum new ti : cum_at cum_infections_upper_gen new ti = running_sum new ti.
Proof. unfold cum_at, running_sum, cum_infections_upper_gen. replace (ti + 1) with (S ti) by lia. reflexivity. Qed.

Theorem running_sum_step new ti : S ti < length new -> (running_sum new (S ti) == running_sum new ti + nth (S ti) new 0)%Q.
Proof. intros H. unfold running_sum. rewrite (firstn_S_nth new (S ti) H), qsum_app.
  assert (E : (qsum [nth (S ti) new 0%Q] == nth (S ti) new 0%Q)%Q) by (unfold qsum; cbn [fold_right]; ring). rewrite E. reflexivity. Qed.

Theorem running_sum_first new : 0 < length new -> (running_sum new 0 == nth 0 new 0)%Q.
Proof. destruct new; cbn [length]; [lia|]. intros _. unfold running_sum, qsum. cbn [firstn fold_right nth]. ring. Qed.

(* the sim-level cum_deaths series is recorded with upper bound ti: it lags by one step *)
Theorem cum_deaths_lags new ti : cum_at cum_deaths_upper_gen new (S ti) = running_sum new ti.
Proof. reflexivity. Qed.

Theorem cum_deaths_lag_refuted : exists new ti, ~ (cum_at cum_deaths_upper_gen new ti == running_sum new ti)%Q.
Proof. exists [95; 80]%Q, 0. cbn. intros H. discriminate H. Qed.

(* prevalence in [0,1] when the infected are among the living and somebody is alive *)
Lemma filter_sub_len {A} (f g : A -> bool) l : (forall x, In x l -> f x = true -> g x = true) -> length (filter f l) <= length (filter g l).
Proof.
  induction l as [|a l IH]; intros H; cbn; [lia|].
  assert (IH' : length (filter f l) <= length (filter g l)) by (apply IH; intros x Hx; apply H; right; exact Hx).
  destruct (f a) eqn:F; [rewrite (H a (or_introl eq_refl) F); cbn; lia|destruct (g a); cbn; lia].
Qed.

Theorem prevalence_range infected alive au : (forall u, In u au -> infected u = true -> alive u = true) -> 0 < count_state alive au ->
  (0 <= prevalence infected alive au <= 1)%Q.
Proof.
  intros H Hpos. unfold prevalence, prevalence_gen, count_state in *.
  pose proof (filter_sub_len infected alive au H) as L.
  set (a := length (filter infected au)) in *. set (b := length (filter alive au)) in *.
  assert (Hb : (0 < inject_Z (Z.of_nat b))%Q) by (change 0%Q with (inject_Z 0); rewrite <- Zlt_Qlt; lia).
  assert (Ha : (0 <= inject_Z (Z.of_nat a))%Q) by (change 0%Q with (inject_Z 0); rewrite <- Zle_Qle; lia).
  assert (Hab : (inject_Z (Z.of_nat a) <= inject_Z (Z.of_nat b))%Q) by (rewrite <- Zle_Qle; lia).
  split.
  - apply Qle_shift_div_l; [exact Hb|]. lra.
  - apply Qle_shift_div_r; [exact Hb|]. lra.
Qed.

(* scaling: scalable results are multiplied by the factor, the others are untouched *)
Theorem scale_only_scalable s rs r : In r (finalize_results s rs) ->
  exists r0, In r0 rs /\ r_scale r = r_scale r0 /\
    r_vals r = if r_scale r0 then map (Qmult s) (r_vals r0) else r_vals r0.
Proof.
  unfold finalize_results. intros H. apply in_map_iff in H as [r0 [<- H0]]. exists r0. split; [exact H0|].
  unfold scale_result. destruct (r_scale r0) eqn:E; cbn; rewrite ?E; split; reflexivity.
Qed.

Theorem pop_scale_two_forms total_pop n : ~ (n == 0)%Q -> (total_pop_gen (pop_scale_gen total_pop n) n == total_pop)%Q.
Proof. intros H. unfold total_pop_gen, pop_scale_gen. field. exact H. Qed.
Theorem pop_scale_from_scale s n : ~ (n == 0)%Q -> (pop_scale_gen (total_pop_gen s n) n == s)%Q.
Proof. intros H. unfold total_pop_gen, pop_scale_gen. field. exact H. Qed.

(* a cumulative sum of scaled flows equals the scaled cumulative sum *)
Lemma qsum_scale s l : (qsum (map (Qmult s) l) == s * qsum l)%Q.
Proof. unfold qsum. induction l as [|x l IH]; cbn [map fold_right]; [ring|]. rewrite IH. ring. Qed.
Theorem cumsum_commutes_with_scaling s new ti : (running_sum (map (Qmult s) new) ti == s * running_sum new ti)%Q.
Proof. unfold running_sum. rewrite firstn_map. apply qsum_scale. Qed.

(* the hypothesis "infected agents are alive" of prevalence_range is needed: a module that does not clear its flags when agents die counts this step's dead
   in the numerator (they are still among the active agents until the end of the step) while the denominator counts the living *)
Lemma prevalence_above_one_refuted : exists infected alive au, (0 < count_state alive au)%nat /\ (1 < prevalence infected alive au)%Q.
Proof. exists (fun _ => true), (fun u => Nat.eqb u 0), [0; 1; 2]%nat. split; [vm_compute; lia|]. vm_compute. reflexivity. Qed.
