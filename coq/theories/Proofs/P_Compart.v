(* Soundness of the exhaustive compartment checks: the finite enumeration covers every valuation. *)
From SS Require Import Model.Prelude Model.L5_CompartBase Gen.Gen_Compart Model.L5_Compart.
From Coq Require Import String List Bool.
Open Scope string_scope.

Lemma all_vals_complete ks : forall v, map fst v = ks -> In v (all_vals ks).
Proof.
  induction ks as [|k t IH]; intros v H.
  - destruct v; [left; reflexivity|discriminate].
  - destruct v as [|[k' b] v']; [discriminate|]. cbn in H. injection H as -> Ht.
    cbn [all_vals]. apply in_flat_map. exists v'. split; [apply IH; exact Ht|]. destruct b; cbn; auto.
Qed.

(* step_state / set_prognoses: for EVERY flag valuation of a living agent in exactly one compartment, and EVERY truth assignment of the
   time conditions / argument memberships, the agent ends in exactly one compartment, subset flags consistent, along an allowed arrow *)
Theorem check_live_sound sp m : check_live sp m = true ->
  forall st cv, map fst st = s_flags sp -> map fst cv = dedup_str (sels_of (method_script sp m)) ->
  valid sp st = true -> coupled sp cv = true ->
  exists st', run_script (method_script sp m) cv st = Some st' /\ valid sp st' = true /\ arrow_ok sp (comp sp st) (comp sp st') = true.
Proof.
  unfold check_live. intros H st cv Hst Hcv Hv Hc. rewrite forallb_forall in H.
  specialize (H st (all_vals_complete _ _ Hst)). rewrite Hv in H. cbn [implb] in H. rewrite forallb_forall in H.
  specialize (H cv (all_vals_complete _ _ Hcv)). rewrite Hc in H. cbn [implb] in H.
  unfold run_script in *. eexists. split; [reflexivity|]. apply andb_prop in H. exact H.
Qed.

(* step_die: the agent that died holds no compartment flag afterwards; every other agent is untouched *)
Theorem check_die_sound sp : check_die sp = true -> forall st, map fst st = s_flags sp -> valid sp st = true ->
  (exists st', run_script (script_gen (s_name sp) "step_die") [("uids", true)] st = Some st' /\ all_clear sp st' = true) /\
  (exists st', run_script (script_gen (s_name sp) "step_die") [("uids", false)] st = Some st' /\
               forall k, In k (s_flags sp) -> getv st' k = getv st k).
Proof.
  unfold check_die. intros H st Hst Hv. rewrite forallb_forall in H.
  specialize (H st (all_vals_complete _ _ Hst)). rewrite Hv in H. cbn [implb] in H. apply andb_prop in H as [A B].
  unfold run_script in *. split; eexists; (split; [reflexivity|]); [exact A|].
  intros k Hk. rewrite forallb_forall in B. specialize (B k Hk). apply eqb_prop in B. exact B.
Qed.

Lemma live_SIR : check_live spec_SIR "step_state" = true /\ check_live spec_SIR "set_prognoses" = true /\ check_die spec_SIR = true.
Proof. vm_compute. repeat split. Qed.
Lemma live_SIS : check_live spec_SIS "step_state" = true /\ check_live spec_SIS "set_prognoses" = true.
Proof. vm_compute. repeat split. Qed.
Lemma live_Measles : check_live spec_Measles "step_state" = true /\ check_live spec_Measles "set_prognoses" = true /\ check_die spec_Measles = true.
Proof. vm_compute. repeat split. Qed.
Lemma live_Ebola : check_live spec_Ebola "step_state" = true /\ check_live spec_Ebola "set_prognoses" = true /\ check_die spec_Ebola = true.
Proof. vm_compute. repeat split. Qed.
Lemma live_Cholera : check_live spec_Cholera "step_state" = true /\ check_live spec_Cholera "set_prognoses" = true /\ check_die spec_Cholera = true.
Proof. vm_compute. repeat split. Qed.
Lemma live_Gonorrhea : check_live spec_Gonorrhea "step_state" = true /\ check_live spec_Gonorrhea "set_prognoses" = true.
Proof. vm_compute. repeat split. Qed.
Lemma live_Syphilis : check_live spec_Syphilis "step_state" = true /\ check_live spec_Syphilis "set_prognoses" = true.
Proof. vm_compute. repeat split. Qed.
Lemma live_HIV : check_live spec_HIV "step_state" = true /\ check_live spec_HIV "set_prognoses" = true.
Proof. vm_compute. repeat split. Qed.

(* cumulative infections = number of infection events (running sum, see C15); where the arrow set has no way back to
   `susceptible`, an agent is infected at most once: the compartment never returns to susceptible *)
Definition no_return (sp : dspec) : bool := negb (existsb (fun ab => String.eqb (snd ab) "susceptible") (s_arrows sp)).
Lemma no_return_SIR_like : no_return spec_SIR = true /\ no_return spec_Measles = true /\ no_return spec_Ebola = true /\ no_return spec_Cholera = true /\ no_return spec_HIV = true /\ no_return spec_Syphilis = true.
Proof. vm_compute. repeat split. Qed.
Lemma arrow_no_return sp a : no_return sp = true -> a <> "susceptible" -> arrow_ok sp a "susceptible" = false.
Proof.
  unfold no_return, arrow_ok. intros H N. apply negb_true_iff in H.
  assert (E : String.eqb a "susceptible" = false) by (apply String.eqb_neq; exact N). rewrite E. cbn [orb].
  apply not_true_is_false. intros X. apply existsb_exists in X as [[x y] [Hin Hxy]]. apply andb_prop in Hxy as [_ Hy]. cbn in Hy.
  assert (existsb (fun ab => String.eqb (snd ab) "susceptible") (s_arrows sp) = true) by (apply existsb_exists; exists (x, y); split; auto). congruence.
Qed.
