From SS Require Import Model.Prelude Model.L3_Units Gen.Gen_Time Gen.Gen_Law.
From Coq Require Import Reals Lra Lia QArith.
Local Open Scope R_scope.

(* ---- uniform: the affine image of a uniform on [0,1) is supported on [low, high) and has the uniform quantile function *)
Lemma uniform_range u low high : 0 <= u < 1 -> low < high -> low <= uniform_ppf_gen u low high < high.
Proof. intros [H0 H1] Hl. unfold uniform_ppf_gen. split; nra. Qed.
Lemma uniform_quantile u low high x : low < high -> (uniform_ppf_gen u low high <= x <-> u <= (x - low) / (high - low)).
Proof.
  intros Hl. unfold uniform_ppf_gen. assert (Hd : 0 < high - low) by lra. split; intros H.
  - apply Rmult_le_reg_r with (high - low); [exact Hd|]. unfold Rdiv. rewrite Rmult_assoc, Rinv_l by lra. lra.
  - apply Rmult_le_compat_r with (r := high - low) in H; [|lra]. unfold Rdiv in H. rewrite Rmult_assoc, Rinv_l in H by lra. lra.
Qed.
(* ---- randint through the per-agent path: the scaled uniform lies in [low, high): its floor is an integer of the half-open range *)
Lemma randint_range u low high : 0 <= u < 1 -> low < high -> low <= randint_ppf_gen u low high < high.
Proof. intros [H0 H1] Hl. unfold randint_ppf_gen. split; nra. Qed.
Lemma randint_floor_range u (low high : Z) : 0 <= u < 1 -> (low < high)%Z ->
  (low <= Int_part (randint_ppf_gen u (IZR low) (IZR high)) < high)%Z.
Proof.
  intros Hu Hl. pose proof (randint_range u (IZR low) (IZR high) Hu (IZR_lt _ _ Hl)) as [A B].
  set (x := randint_ppf_gen u (IZR low) (IZR high)) in *. pose proof (base_Int_part x) as [C D]. split.
  - apply Z.lt_succ_r. apply lt_IZR. rewrite succ_IZR. lra.
  - apply lt_IZR. lra.
Qed.
(* ---- Bernoulli: true iff the uniform is below p; monotone in p under a fixed stream; p <= 0 never, p >= 1 always *)
Lemma Rltb_true a b : Rltb a b = true <-> a < b.
Proof. unfold Rltb. destruct (Rlt_dec a b); split; intros; try assumption; try reflexivity; try discriminate; contradiction. Qed.
Lemma bernoulli_spec u p : bernoulli_gen u p = true <-> u < p.
Proof. apply Rltb_true. Qed.
Lemma bernoulli_monotone u p p' : p <= p' -> bernoulli_gen u p = true -> bernoulli_gen u p' = true.
Proof. intros H B. apply bernoulli_spec in B. apply bernoulli_spec. lra. Qed.
Lemma bernoulli_never u p : 0 <= u -> p <= 0 -> bernoulli_gen u p = false.
Proof. intros H0 Hp. destruct (bernoulli_gen u p) eqn:E; [|reflexivity]. apply bernoulli_spec in E. lra. Qed.
Lemma bernoulli_always u p : u < 1 -> 1 <= p -> bernoulli_gen u p = true.
Proof. intros H1 Hp. apply bernoulli_spec. lra. Qed.

(* ---- explicit lognormal: the implicit parameters computed from (mean, std) give back exactly that mean and that variance *)
Lemma exp_half x : exp (x / 2) = sqrt (exp x).
Proof.
  assert (H : exp (x / 2) * exp (x / 2) = exp x) by (rewrite <- exp_plus; f_equal; field).
  symmetry. apply sqrt_lem_1; [left; apply exp_pos|left; apply exp_pos|exact H].
Qed.
Lemma lognorm_sigma_sq m s : 0 < m -> 0 < s -> (lognorm_sigma_gen m s) ^ 2 = ln (s ^ 2 / m ^ 2 + 1).
Proof.
  intros Hm Hs. unfold lognorm_sigma_gen, lognorm_sigma2_gen. apply pow2_sqrt.
  assert (0 < s ^ 2 / m ^ 2) by (apply Rdiv_lt_0_compat; nra).
  rewrite <- ln_1. left. apply ln_increasing; lra.
Qed.
Theorem lognorm_ex_mean m s : 0 < m -> 0 < s ->
  exp (lognorm_mu_gen m s + (lognorm_sigma_gen m s) ^ 2 / 2) = m.
Proof.
  intros Hm Hs. rewrite exp_plus, exp_half, lognorm_sigma_sq by assumption.
  assert (Hp : 0 < s ^ 2 / m ^ 2 + 1) by (assert (0 < s ^ 2 / m ^ 2) by (apply Rdiv_lt_0_compat; nra); lra).
  rewrite exp_ln by exact Hp. unfold lognorm_mu_gen, lognorm_mu2_gen.
  assert (HA : 0 < s ^ 2 + m ^ 2) by nra.
  assert (HsA : 0 < sqrt (s ^ 2 + m ^ 2)) by (apply sqrt_lt_R0; exact HA).
  rewrite exp_ln by (apply Rdiv_lt_0_compat; [nra|exact HsA]).
  replace (s ^ 2 / m ^ 2 + 1) with ((s ^ 2 + m ^ 2) / m ^ 2) by (field; lra).
  rewrite sqrt_div_alt by nra. replace (sqrt (m ^ 2)) with m by (symmetry; rewrite <- Rsqr_pow2; apply sqrt_Rsqr; lra).
  field. split; lra.
Qed.
Theorem lognorm_ex_variance m s : 0 < m -> 0 < s ->
  (exp ((lognorm_sigma_gen m s) ^ 2) - 1) * exp (2 * lognorm_mu_gen m s + (lognorm_sigma_gen m s) ^ 2) = s ^ 2.
Proof.
  intros Hm Hs. pose proof (lognorm_ex_mean m s Hm Hs) as HM.
  replace (2 * lognorm_mu_gen m s + lognorm_sigma_gen m s ^ 2) with ((lognorm_mu_gen m s + lognorm_sigma_gen m s ^ 2 / 2) + (lognorm_mu_gen m s + lognorm_sigma_gen m s ^ 2 / 2)) by field.
  rewrite exp_plus, HM, lognorm_sigma_sq by assumption.
  assert (Hp : 0 < s ^ 2 / m ^ 2 + 1) by (assert (0 < s ^ 2 / m ^ 2) by (apply Rdiv_lt_0_compat; nra); lra).
  rewrite exp_ln by exact Hp. field. lra.
Qed.

(* ---- a time-unit-wrapped parameter scales the variates by exactly the unit conversion factor (durations multiply, rates divide) *)
Lemma dur_scaling v f : dur_values_gen v f = Ok (v * f)%Q.
Proof. reflexivity. Qed.
Lemma rate_scaling v f : ~ (f == 0)%Q -> rate_values_gen v f = Ok (v / f)%Q.
Proof. intros H. unfold rate_values_gen. destruct (Qeq_bool f 0) eqn:B; [apply Qeq_bool_eq in B; contradiction|reflexivity]. Qed.
