(* Proofs over R about the GENERATED probability conversions of Gen_Time. *)
From SS Require Import Model.Prelude Model.L3_Units Gen.Gen_Time.
From Coq Require Import Reals Lra Psatz.
Open Scope R_scope.

Lemma neg_div_pos a f : a < 0 -> 0 < f -> a / f < 0.
Proof. intros Ha Hf. unfold Rdiv. pose proof (Rinv_0_lt_compat f Hf). nra. Qed.

Lemma exp_neg_lt_1 x : x < 0 -> exp x < 1.
Proof. intros H. pose proof (exp_increasing _ _ H) as X. rewrite exp_0 in X. exact X. Qed.

Ltac rb := unfold Reqb, Rneqb, Rleb, Rltb, Rgeb, Rgtb, Rleb, Rltb in *.

(* characterisation of the generated scalar branch of time_prob.update_values *)
Lemma tpv_mid v f : 0 < v < 1 -> time_prob_values_gen v f = Ok (1 - exp (ln (1 - v) / f)).
Proof.
  intros [H0 H1]. unfold time_prob_values_gen. cbv zeta. rb.
  destruct (Req_EM_T v (IZR 0)) as [E|_]; [lra|].
  destruct (Req_EM_T v (IZR 1)) as [E|_]; [lra|].
  destruct (Rle_dec (IZR 0) v) as [_|N]; [|lra].
  destruct (Rle_dec v (IZR 1)) as [_|N]; [|lra].
  cbn [andb]. unfold Rdiv. rewrite Ropp_involutive. reflexivity.
Qed.

Lemma tpv_zero f : time_prob_values_gen 0 f = Ok 0.
Proof. unfold time_prob_values_gen. cbv zeta. rb. destruct (Req_EM_T 0 (IZR 0)); [reflexivity|lra]. Qed.

Lemma tpv_one f : time_prob_values_gen 1 f = Ok 1.
Proof.
  unfold time_prob_values_gen. cbv zeta. rb.
  destruct (Req_EM_T 1 (IZR 0)); [lra|]. destruct (Req_EM_T 1 (IZR 1)); [reflexivity|lra].
Qed.

Lemma tpv_reject v f : v < 0 \/ 1 < v -> time_prob_values_gen v f = Err EValue.
Proof.
  intros H. unfold time_prob_values_gen. cbv zeta. rb.
  destruct (Req_EM_T v (IZR 0)); [lra|]. destruct (Req_EM_T v (IZR 1)); [lra|].
  destruct (Rle_dec (IZR 0) v); destruct (Rle_dec v (IZR 1)); cbn; try reflexivity; lra.
Qed.

Lemma tpv_total v f : 0 <= v <= 1 -> exists y, time_prob_values_gen v f = Ok y.
Proof.
  intros [H0 H1]. destruct (Req_dec v 0) as [->|N0]; [eexists; apply tpv_zero|].
  destruct (Req_dec v 1) as [->|N1]; [eexists; apply tpv_one|].
  eexists; apply tpv_mid; lra.
Qed.

(* compounding the per-step probability over `factor` steps returns the original probability *)
Lemma time_prob_compound v f y : 0 < v < 1 -> f <> 0 ->
  time_prob_values_gen v f = Ok y -> 1 - Rpower (1 - y) f = v.
Proof.
  intros Hv Hf E. rewrite (tpv_mid v f Hv) in E. injection E as <-.
  replace (1 - (1 - exp (ln (1 - v) / f))) with (exp (ln (1 - v) / f)) by ring.
  unfold Rpower. rewrite ln_exp.
  replace (f * (ln (1 - v) / f)) with (ln (1 - v)) by (field; auto).
  rewrite exp_ln; lra.
Qed.

Lemma time_prob_compound_zero f y : time_prob_values_gen 0 f = Ok y -> 1 - Rpower (1 - y) f = 0.
Proof.
  rewrite tpv_zero. intros E; injection E as <-. unfold Rpower.
  replace (1 - 0) with 1 by ring. rewrite ln_1, Rmult_0_r, exp_0. ring.
Qed.

Lemma time_prob_range v f y : 0 <= v <= 1 -> 0 < f -> time_prob_values_gen v f = Ok y -> 0 <= y <= 1.
Proof.
  intros [H0 H1] Hf E.
  destruct (Req_dec v 0) as [->|N0]; [rewrite tpv_zero in E; injection E as <-; lra|].
  destruct (Req_dec v 1) as [->|N1]; [rewrite tpv_one in E; injection E as <-; lra|].
  rewrite tpv_mid in E by lra. injection E as <-.
  assert (L : ln (1 - v) < 0) by (rewrite <- ln_1; apply ln_increasing; lra).
  assert (D : ln (1 - v) / f < 0).
  { apply neg_div_pos; auto. }
  pose proof (exp_pos (ln (1 - v) / f)).
  assert (exp (ln (1 - v) / f) < 1) by (apply exp_neg_lt_1; auto).
  lra.
Qed.

(* monotone in the step: a longer parent step (smaller factor) gives a larger per-step probability *)
Lemma time_prob_mono v f1 f2 y1 y2 : 0 <= v <= 1 -> 0 < f1 <= f2 ->
  time_prob_values_gen v f1 = Ok y1 -> time_prob_values_gen v f2 = Ok y2 -> y2 <= y1.
Proof.
  intros [H0 H1] [Hf1 Hf12] E1 E2.
  destruct (Req_dec v 0) as [->|N0]; [rewrite tpv_zero in *; injection E1 as <-; injection E2 as <-; lra|].
  destruct (Req_dec v 1) as [->|N1]; [rewrite tpv_one in *; injection E1 as <-; injection E2 as <-; lra|].
  rewrite tpv_mid in E1, E2 by lra. injection E1 as <-. injection E2 as <-.
  assert (L : ln (1 - v) < 0) by (rewrite <- ln_1; apply ln_increasing; lra).
  assert (D : ln (1 - v) / f1 <= ln (1 - v) / f2).
  { unfold Rdiv. apply Rmult_le_compat_neg_l; [lra|]. apply Rinv_le_contravar; lra. }
  destruct D as [D|D]; [apply exp_increasing in D; lra | rewrite D; lra].
Qed.

(* conversion composes: converting with f1 then with f2 is converting with f1*f2 *)
Lemma time_prob_compose v f1 f2 y1 y2 : 0 <= v <= 1 -> 0 < f1 -> 0 < f2 ->
  time_prob_values_gen v f1 = Ok y1 -> time_prob_values_gen y1 f2 = Ok y2 ->
  time_prob_values_gen v (f1 * f2) = Ok y2.
Proof.
  intros [H0 H1] Hf1 Hf2 E1 E2.
  destruct (Req_dec v 0) as [->|N0]; [rewrite tpv_zero in *; injection E1 as <-; rewrite tpv_zero in E2; auto|].
  destruct (Req_dec v 1) as [->|N1]; [rewrite tpv_one in *; injection E1 as <-; rewrite tpv_one in E2; auto|].
  rewrite tpv_mid in E1 by lra. injection E1 as <-.
  assert (L : ln (1 - v) < 0) by (rewrite <- ln_1; apply ln_increasing; lra).
  assert (D : ln (1 - v) / f1 < 0).
  { apply neg_div_pos; auto. }
  pose proof (exp_pos (ln (1 - v) / f1)).
  assert (exp (ln (1 - v) / f1) < 1) by (apply exp_neg_lt_1; auto).
  rewrite tpv_mid in E2 by lra. rewrite tpv_mid by lra. rewrite <- E2. f_equal. f_equal. f_equal.
  replace (1 - (1 - exp (ln (1 - v) / f1))) with (exp (ln (1 - v) / f1)) by ring.
  rewrite ln_exp. field. split; lra.
Qed.

(* round trip: factors multiplying to 1 give back the original probability *)
Lemma time_prob_roundtrip v f y1 y2 : 0 <= v <= 1 -> 0 < f ->
  time_prob_values_gen v f = Ok y1 -> time_prob_values_gen y1 (/ f) = Ok y2 -> y2 = v.
Proof.
  intros Hv Hf E1 E2.
  assert (Hi : 0 < / f) by (apply Rinv_0_lt_compat; auto).
  pose proof (time_prob_compose v f (/ f) y1 y2 Hv Hf Hi E1 E2) as E.
  rewrite Rinv_r in E by lra.
  destruct Hv as [H0 H1].
  destruct (Req_dec v 0) as [->|N0]; [rewrite tpv_zero in E; injection E; auto|].
  destruct (Req_dec v 1) as [->|N1]; [rewrite tpv_one in E; injection E; auto|].
  rewrite tpv_mid in E by lra. injection E as <-.
  unfold Rdiv. rewrite Rinv_1, Rmult_1_r. rewrite exp_ln; lra.
Qed.

(* ------------------------------------------------------------------ rate_prob *)
Lemma rpv_pos v f : 0 < v -> rate_prob_values_gen v f = Ok (1 - exp (- v / f)).
Proof.
  intros H. unfold rate_prob_values_gen. cbv zeta. rb.
  destruct (Req_EM_T v (IZR 0)); [lra|]. destruct (Rlt_dec (IZR 0) v); [reflexivity|lra].
Qed.
Lemma rpv_zero f : rate_prob_values_gen 0 f = Ok 0.
Proof. unfold rate_prob_values_gen. cbv zeta. rb. destruct (Req_EM_T 0 (IZR 0)); [reflexivity|lra]. Qed.
Lemma rpv_reject v f : v < 0 -> rate_prob_values_gen v f = Err EValue.
Proof.
  intros H. unfold rate_prob_values_gen. cbv zeta. rb.
  destruct (Req_EM_T v (IZR 0)); [lra|]. destruct (Rlt_dec (IZR 0) v); [lra|reflexivity].
Qed.

(* rate -> probability is 1 - exp(-rate * dt), dt = 1/factor parent steps per own unit *)
Lemma rate_prob_formula v f y : 0 <= v -> f <> 0 -> rate_prob_values_gen v f = Ok y -> y = 1 - exp (- (v * / f)).
Proof.
  intros Hv Hf E. destruct (Req_dec v 0) as [->|N].
  - rewrite rpv_zero in E. injection E as <-. rewrite Rmult_0_l, Ropp_0, exp_0. ring.
  - rewrite rpv_pos in E by lra. injection E as <-. f_equal. f_equal. unfold Rdiv. ring.
Qed.

Lemma rate_prob_range v f y : 0 <= v -> 0 < f -> rate_prob_values_gen v f = Ok y -> 0 <= y < 1.
Proof.
  intros Hv Hf E. destruct (Req_dec v 0) as [->|N].
  - rewrite rpv_zero in E. injection E as <-. lra.
  - rewrite rpv_pos in E by lra. injection E as <-.
    assert (D : - v / f < 0).
    { apply neg_div_pos; [lra|auto]. }
    pose proof (exp_pos (- v / f)).
    assert (exp (- v / f) < 1) by (apply exp_neg_lt_1; auto). lra.
Qed.

Lemma rate_prob_mono v f1 f2 y1 y2 : 0 <= v -> 0 < f1 <= f2 ->
  rate_prob_values_gen v f1 = Ok y1 -> rate_prob_values_gen v f2 = Ok y2 -> y2 <= y1.
Proof.
  intros Hv [Hf1 Hf12] E1 E2. destruct (Req_dec v 0) as [->|N].
  - rewrite rpv_zero in *. injection E1 as <-. injection E2 as <-. lra.
  - rewrite rpv_pos in E1, E2 by lra. injection E1 as <-. injection E2 as <-.
    assert (D : - v / f1 <= - v / f2).
    { unfold Rdiv. apply Rmult_le_compat_neg_l; [lra|]. apply Rinv_le_contravar; lra. }
    destruct D as [D|D]; [apply exp_increasing in D; lra | rewrite D; lra].
Qed.
