(* PCG64's 128-bit LCG has full period: states reached by distinct advance distances (< 2^128) from the same state are distinct,
   hence distinct jump indices (< 2^64; the stride is odd) give distinct generator states.  Hull-Dobell for modulus 2^128, by hand. *)
From SS Require Import Model.Prelude Model.L0_Pcg64 Model.L1_Dist.
From Coq Require Import Lia ZArith Znumtheory.
Open Scope Z_scope.

Lemma mod128_mod x : mod128 x = x mod M128.
Proof. unfold mod128, M128. apply Z.land_ones. lia. Qed.
Lemma M128_pos : 0 < M128. Proof. reflexivity. Qed.

(* ---- aff_comp is associative (components are normalised) *)
Lemma aff_comp_assoc f g h : aff_comp f (aff_comp g h) = aff_comp (aff_comp f g) h.
Proof.
  destruct f as [a1 c1], g as [a2 c2], h as [a3 c3]. unfold aff_comp. cbn [fst snd]. rewrite !mod128_mod. f_equal.
  - rewrite Z.mul_mod_idemp_r, Z.mul_mod_idemp_l by (unfold M128; lia). f_equal. ring.
  - rewrite <- (Z.add_mod_idemp_l (a1 * ((a2 * c3 + c2) mod M128))) by (unfold M128; lia).
    rewrite Z.mul_mod_idemp_r by (unfold M128; lia).
    rewrite Z.add_mod_idemp_l by (unfold M128; lia).
    rewrite <- (Z.add_mod_idemp_l ((a1 * a2) mod M128 * c3)) by (unfold M128; lia).
    rewrite Z.mul_mod_idemp_l by (unfold M128; lia). rewrite Z.add_mod_idemp_l by (unfold M128; lia).
    rewrite Z.add_mod_idemp_r by (unfold M128; lia). f_equal. ring.
Qed.

(* geometric sum 1 + A + ... + A^(p-1), by Peano recursion on the positive exponent *)
Definition geo (A : Z) (p : positive) : Z := Pos.peano_rect (fun _ => Z) 1 (fun _ s => 1 + A * s) p.
Lemma geo_1 A : geo A 1 = 1. Proof. reflexivity. Qed.
Lemma geo_succ A p : geo A (Pos.succ p) = 1 + A * geo A p.
Proof. unfold geo. rewrite Pos.peano_rect_succ. reflexivity. Qed.
Lemma geo_closed A p : (A - 1) * geo A p = A ^ Zpos p - 1.
Proof.
  induction p using Pos.peano_ind.
  - rewrite geo_1. change (A ^ 1) with (A * 1). ring.
  - rewrite geo_succ, Pos2Z.inj_succ, Z.pow_succ_r by lia.
    replace ((A - 1) * (1 + A * geo A p)) with ((A - 1) + A * ((A - 1) * geo A p)) by ring. rewrite IHp. ring.
Qed.

(* closed form of the iterated affine map *)
Lemma aff_pow_closed A c p : aff_pow (mod128 A, mod128 c) (Zpos p) = (mod128 (A ^ Zpos p), mod128 (c * geo A p)).
Proof.
  unfold aff_pow. induction p using Pos.peano_ind.
  - cbn [Pos.iter_op]. rewrite geo_1, Z.mul_1_r. change (A ^ 1) with (A * 1). rewrite Z.mul_1_r. reflexivity.
  - rewrite Pos.iter_op_succ by (intros; apply aff_comp_assoc). rewrite IHp. unfold aff_comp. cbn [fst snd].
    rewrite !mod128_mod, geo_succ, Pos2Z.inj_succ, Z.pow_succ_r by lia. f_equal.
    + rewrite Z.mul_mod_idemp_l, Z.mul_mod_idemp_r by (unfold M128; lia). reflexivity.
    + rewrite <- (Z.add_mod_idemp_l (A mod M128 * _)) by (unfold M128; lia).
      rewrite Z.mul_mod_idemp_l, Z.mul_mod_idemp_r by (unfold M128; lia).
      rewrite Z.add_mod_idemp_l, Z.add_mod_idemp_r by (unfold M128; lia). f_equal. ring.
Qed.

(* ---- 2-adic facts *)
Lemma odd_mul a b : Z.odd a = true -> Z.odd b = true -> Z.odd (a * b) = true.
Proof. intros Ha Hb. rewrite Z.odd_mul, Ha, Hb. reflexivity. Qed.
Lemma odd_pow a n : 0 <= n -> Z.odd a = true -> Z.odd (a ^ n) = true.
Proof.
  intros Hn Ha. pattern n. apply natlike_ind; [reflexivity| |exact Hn].
  intros x Hx IH. rewrite Z.pow_succ_r by exact Hx. apply odd_mul; assumption.
Qed.
Lemma pow_mod4 A n : 0 <= n -> A mod 4 = 1 -> (A ^ n) mod 4 = 1.
Proof.
  intros Hn HA. pattern n. apply natlike_ind; [reflexivity| |exact Hn].
  intros x Hx IH. rewrite Z.pow_succ_r by exact Hx. rewrite Z.mul_mod, HA, IH by lia. reflexivity.
Qed.
Lemma odd_rel_prime_pow2 a j : 0 <= j -> Z.odd a = true -> rel_prime a (2 ^ j).
Proof.
  intros Hj Ha. apply Zpow_facts.rel_prime_Zpower_r; [exact Hj|]. apply rel_prime_sym. apply prime_rel_prime; [exact prime_2|].
  intros [q Hq]. rewrite Hq, Z.mul_comm, Z.odd_mul in Ha. cbn in Ha. discriminate.
Qed.
Lemma pow2_divides_odd_mul a b j : 0 <= j -> Z.odd a = true -> (2 ^ j | a * b) -> (2 ^ j | b).
Proof. intros Hj Ha H. apply Gauss with a; [exact H|]. apply rel_prime_sym, odd_rel_prime_pow2; assumption. Qed.
Lemma pow2_not_divides k q : 0 <= k < 128 -> Z.odd q = true -> ~ (2 ^ 128 | 2 ^ k * q).
Proof.
  intros Hk Hq [t Ht]. assert (E : 2 ^ 128 = 2 ^ k * 2 ^ (128 - k)) by (rewrite <- Z.pow_add_r by lia; f_equal; lia).
  rewrite E in Ht. assert (P : 0 < 2 ^ k) by (apply Z.pow_pos_nonneg; lia).
  assert (Hq' : q = t * 2 ^ (128 - k)) by nia.
  assert (E2 : 2 ^ (128 - k) = 2 * 2 ^ (127 - k)) by (rewrite <- Z.pow_succ_r by lia; f_equal; lia).
  rewrite Hq', E2 in Hq. replace (t * (2 * 2 ^ (127 - k))) with (2 * (t * 2 ^ (127 - k))) in Hq by ring.
  rewrite Z.odd_mul in Hq. cbn in Hq. discriminate.
Qed.

(* every positive number is an odd number times a power of two *)
Lemma odd_times_pow2 p : exists m k, Z.odd (Zpos m) = true /\ 0 <= k /\ Zpos p = Zpos m * 2 ^ k.
Proof.
  induction p as [p IH|p IH|].
  - exists (p~1)%positive, 0. split; [reflexivity|]. split; [lia|]. rewrite Z.pow_0_r. lia.
  - destruct IH as (m & k & Hm & Hk & E). exists m, (k + 1). split; [exact Hm|]. split; [lia|].
    rewrite Z.pow_add_r by lia. change (2 ^ 1) with 2. rewrite Pos2Z.inj_xO, E. ring.
  - exists 1%positive, 0. split; [reflexivity|]. split; [lia|]. reflexivity.
Qed.

(* parity of the geometric sum of an odd ratio = parity of the number of terms *)
Lemma geo_parity A p : Z.odd A = true -> Z.odd (geo A p) = Z.odd (Zpos p).
Proof.
  intros HA. induction p using Pos.peano_ind; [reflexivity|].
  rewrite geo_succ, Pos2Z.inj_succ, Z.odd_add, Z.odd_mul, HA, IHp, Z.odd_succ, <- Z.negb_odd. cbn. destruct (Z.odd (Z.pos p)); reflexivity.
Qed.

(* lifting the exponent for A = 1 (mod 4):  A^(m 2^k) - 1 = 2^k (A - 1) q  with q odd *)
Lemma lte_pow2 A m : A mod 4 = 1 -> Z.odd (Zpos m) = true -> forall k, 0 <= k ->
  exists q, Z.odd q = true /\ A ^ (Zpos m * 2 ^ k) - 1 = 2 ^ k * (A - 1) * q.
Proof.
  intros HA Hm. assert (HAodd : Z.odd A = true).
  { rewrite Zodd_mod. apply Zeq_is_eq_bool. rewrite <- (Z.mod_mod A 2) by lia. replace (A mod 2) with ((A mod 4) mod 2); [rewrite HA; reflexivity|].
    rewrite <- Zmod_div_mod; try lia. exists 2. reflexivity. }
  apply natlike_ind.
  - exists (geo A m). split; [rewrite geo_parity by exact HAodd; exact Hm|]. rewrite Z.pow_0_r, Z.mul_1_r, Z.mul_1_l. symmetry. apply geo_closed.
  - intros k Hk (q & Hq & E). set (n := Zpos m * 2 ^ k) in *.
    assert (Hn : 0 <= n) by (unfold n; assert (0 < 2 ^ k) by (apply Z.pow_pos_nonneg; lia); lia).
    assert (E2 : Zpos m * 2 ^ Z.succ k = n + n) by (unfold n; rewrite Z.pow_succ_r by exact Hk; ring).
    rewrite E2, Z.pow_add_r by exact Hn.
    pose proof (pow_mod4 A n Hn HA) as H4.
    assert (Hr : exists r, Z.odd r = true /\ A ^ n + 1 = 2 * r).
    { pose proof (Z.div_mod (A ^ n) 4 ltac:(lia)) as Hd. rewrite H4 in Hd. exists (2 * (A ^ n / 4) + 1). split; [|lia].
      rewrite Z.add_comm, Z.odd_add_mul_2. reflexivity. }
    destruct Hr as (r & Hr & Er). exists (q * r). split; [apply odd_mul; assumption|].
    replace (A ^ n * A ^ n - 1) with ((A ^ n - 1) * (A ^ n + 1)) by ring. rewrite E, Er, Z.pow_succ_r by exact Hk. ring.
Qed.

(* geometric sum at exponent 0 *)
Definition geoZ (A d : Z) : Z := match d with Zpos p => geo A p | _ => 0 end.
Lemma geoZ_closed A d : 0 <= d -> (A - 1) * geoZ A d = A ^ d - 1.
Proof. intros H. destruct d as [|p|p]; [cbn; ring|apply geo_closed|lia]. Qed.
Lemma aff_pow_closedZ A c d x : 0 <= d -> aff_apply (aff_pow (mod128 A, mod128 c) d) x = mod128 (A ^ d * x + c * geoZ A d).
Proof.
  intros H. destruct d as [|p|p]; [|rewrite aff_pow_closed|lia].
  - cbn [aff_pow geoZ]. unfold aff_apply, aff_id. cbn [fst snd]. rewrite Z.pow_0_r, Z.mul_0_r. reflexivity.
  - unfold aff_apply. cbn [fst snd geoZ]. rewrite !mod128_mod.
    rewrite <- (Z.add_mod_idemp_l (A ^ Z.pos p mod M128 * x)), Z.mul_mod_idemp_l, Z.add_mod_idemp_l, Z.add_mod_idemp_r by (unfold M128; lia). reflexivity.
Qed.

(* ---- full period: from one state, distinct advance distances below 2^128 lead to distinct states *)
Theorem lcg_full_period A c x d e : A mod 4 = 1 -> A <> 1 -> Z.odd c = true -> 0 <= d -> d < e -> e < M128 ->
  aff_apply (aff_pow (mod128 A, mod128 c) d) x <> aff_apply (aff_pow (mod128 A, mod128 c) e) x.
Proof.
  intros HA HA1 Hc Hd Hde He Heq. rewrite !aff_pow_closedZ, !mod128_mod in Heq by lia.
  assert (HAodd : Z.odd A = true).
  { rewrite Zodd_mod. apply Zeq_is_eq_bool. replace (A mod 2) with ((A mod 4) mod 2); [rewrite HA; reflexivity|].
    rewrite <- Zmod_div_mod; try lia. exists 2. reflexivity. }
  set (n := e - d). assert (Hn : 0 < n) by (unfold n; lia).
  (* G_e = G_d + A^d G_n *)
  assert (HG : geoZ A e = geoZ A d + A ^ d * geoZ A n).
  { apply Z.mul_reg_l with (A - 1); [lia|]. rewrite Z.mul_add_distr_l, !geoZ_closed by lia.
    replace ((A - 1) * (A ^ d * geoZ A n)) with (A ^ d * ((A - 1) * geoZ A n)) by ring. rewrite geoZ_closed by lia.
    replace e with (d + n) by (unfold n; lia). rewrite Z.pow_add_r by lia. ring. }
  (* the difference of the two states *)
  assert (HD : (A ^ e * x + c * geoZ A e) - (A ^ d * x + c * geoZ A d) = A ^ d * (geoZ A n * ((A - 1) * x + c))).
  { rewrite HG. replace e with (d + n) by (unfold n; lia). rewrite Z.pow_add_r by lia.
    replace (A ^ d * A ^ n * x + c * (geoZ A d + A ^ d * geoZ A n) - (A ^ d * x + c * geoZ A d)) with (A ^ d * (((A ^ n - 1) * x) + c * geoZ A n)) by ring.
    rewrite <- (geoZ_closed A n) by lia. ring. }
  assert (Hdiv : (M128 | A ^ d * (geoZ A n * ((A - 1) * x + c)))).
  { rewrite <- HD. apply Zmod_divide; [unfold M128; lia|]. rewrite Zminus_mod, <- Heq, Z.sub_diag. reflexivity. }
  unfold M128 in Hdiv. apply pow2_divides_odd_mul in Hdiv; [|lia|apply odd_pow; [lia|exact HAodd]].
  rewrite Z.mul_comm in Hdiv. apply pow2_divides_odd_mul in Hdiv; [|lia|].
  2:{ rewrite Z.odd_add, Z.odd_mul, Hc. rewrite Z.odd_sub, HAodd. cbn. reflexivity. }
  (* n = m 2^k with k < 128, G_n = 2^k q with q odd *)
  destruct n as [|pn|pn] eqn:En; try lia. destruct (odd_times_pow2 pn) as (m & k & Hm & Hk & Epn).
  destruct (lte_pow2 A m HA Hm k Hk) as (q & Hq & Eq).
  assert (Hk128 : k < 128).
  { destruct (Z_lt_ge_dec k 128) as [L|G]; [exact L|exfalso].
    assert (2 ^ 128 <= 2 ^ k) by (apply Z.pow_le_mono_r; lia). assert (0 < Zpos m) by lia. unfold M128 in He. nia. }
  assert (HGn : geoZ A (Zpos pn) = 2 ^ k * q).
  { apply Z.mul_reg_l with (A - 1); [lia|]. rewrite geoZ_closed by lia. rewrite Epn, Eq. ring. }
  rewrite HGn in Hdiv. exact (pow2_not_divides k q (conj Hk Hk128) Hq Hdiv).
Qed.

(* ---- PCG64 as numpy uses it: distinct jump indices below 2^64 give distinct states (increment odd, state in range) *)
Lemma pcg_mult_facts : pcg_mult mod 4 = 1 /\ pcg_mult <> 1 /\ Z.odd pcg_jump_stride = true.
Proof. repeat split; try reflexivity. discriminate. Qed.
Definition jump_dist (k : Z) : Z := mod128 (k * pcg_jump_stride).
Lemma jump_dist_range k : 0 <= jump_dist k < M128.
Proof. unfold jump_dist. rewrite mod128_mod. apply Z.mod_pos_bound. reflexivity. Qed.
Lemma jump_dist_inj i j : 0 <= i -> i < j -> j < 2 ^ 64 -> jump_dist i <> jump_dist j.
Proof.
  intros Hi Hij Hj E. unfold jump_dist in E. rewrite !mod128_mod in E.
  assert (Hd : (M128 | (j - i) * pcg_jump_stride)).
  { apply Zmod_divide; [unfold M128; lia|]. rewrite Z.mul_sub_distr_r, Zminus_mod, E, Z.sub_diag. reflexivity. }
  unfold M128 in Hd. rewrite Z.mul_comm in Hd. apply pow2_divides_odd_mul in Hd; [|lia|apply pcg_mult_facts].
  destruct Hd as [t Ht]. assert (0 < j - i < 2 ^ 64) by lia. assert (2 ^ 64 < 2 ^ 128) by (apply Z.pow_lt_mono_r; lia). nia.
Qed.
Lemma state_of_ind_st g k : 0 <= p_st g < M128 -> 0 <= k ->
  p_st (state_of_ind g k) = aff_apply (aff_pow (lcg (p_inc g)) (jump_dist k)) (p_st g).
Proof.
  intros Hr Hk. unfold state_of_ind. destruct (Z.eqb_spec k 0) as [->|N].
  - cbn [p_st]. unfold jump_dist. rewrite Z.mul_0_l. change (mod128 0) with 0. cbn [aff_pow]. unfold aff_apply, aff_id. cbn [fst snd].
    rewrite Z.mul_1_l, Z.add_0_r, mod128_mod, Z.mod_small by exact Hr. reflexivity.
  - unfold pcg_jumped, pcg_advance. cbn [p_st]. reflexivity.
Qed.
Theorem pcg_jump_states_distinct g i j : Z.odd (p_inc g) = true -> 0 <= p_st g < M128 -> 0 <= i -> i < j -> j < 2 ^ 64 ->
  p_st (state_of_ind g i) <> p_st (state_of_ind g j).
Proof.
  intros Hinc Hr Hi Hij Hj. rewrite !state_of_ind_st by (try exact Hr; lia). unfold lcg.
  destruct pcg_mult_facts as (H4 & H1 & _).
  pose proof (jump_dist_range i) as Ri. pose proof (jump_dist_range j) as Rj. pose proof (jump_dist_inj i j Hi Hij Hj) as Ne.
  destruct (Z_lt_ge_dec (jump_dist i) (jump_dist j)) as [L|G].
  - apply lcg_full_period; try assumption; lia.
  - intros E. symmetry in E. revert E. apply lcg_full_period; try assumption; lia.
Qed.

From Coq Require Import Sorting.Sorted List.
(* every call of a run starts from its own generator state: no hypothesis about the generator is left *)
Theorem sorted_distinct_states_proved g (l : list Z) : Z.odd (p_inc g) = true -> 0 <= p_st g < M128 -> StronglySorted Z.lt l ->
  Forall (fun i => 0 <= i < 2 ^ 64) l -> NoDup (map (fun i => p_st (state_of_ind g i)) l).
Proof.
  intros Hinc Hr. induction l as [|a l IH]; intros S B; cbn [map]; [constructor|].
  inversion S as [|? ? S' Hlt]; subst. inversion B as [|? ? Ba Bl]; subst. constructor; [|apply IH; auto].
  intros Hin. apply in_map_iff in Hin as [j [E Hj]].
  rewrite Forall_forall in Hlt, Bl. specialize (Hlt j Hj). specialize (Bl j Hj).
  apply (pcg_jump_states_distinct g a j Hinc Hr); [lia|lia|lia|]. symmetry. exact E.
Qed.
