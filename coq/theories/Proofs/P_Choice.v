From Coq Require Import QArith List Lia Lqa.
From SS Require Import Model.L1_Choice.
Import ListNotations.
Open Scope Q_scope.

Lemma psum_mono p : all_nonneg p -> forall i, psum i p <= psum (S i) p.
Proof.
  induction 1 as [|x r Hx Hr IH]; intros i; [destruct i; cbn; lra|].
  destruct i as [|i]; [cbn; destruct r; lra|]. specialize (IH i). cbn [psum] in *. lra.
Qed.

Lemma psum_mono_le p : all_nonneg p -> forall i j, (i <= j)%nat -> psum i p <= psum j p.
Proof.
  intros Hp i j Hij. induction Hij as [|j Hij IH]; [lra|]. pose proof (psum_mono p Hp j). lra.
Qed.

Lemma psum_step p : forall i, (i < length p)%nat -> psum (S i) p - psum i p == nth i p 0.
Proof.
  induction p as [|x r IH]; intros i Hi; [cbn in Hi; lia|].
  destruct i as [|i]; [cbn; destruct r; lra|]. cbn [length] in Hi. specialize (IH i ltac:(lia)).
  change (psum (S (S i)) (x :: r)) with (x + psum (S i) r). change (psum (S i) (x :: r)) with (x + psum i r). cbn [nth]. lra.
Qed.

Lemma count_le_above r : all_nonneg r -> forall a u, u < a -> count_le (cumsum_from a r) u = 0%nat.
Proof.
  induction 1 as [|x r Hx Hr IH]; intros a u Hu; [reflexivity|]. cbn [cumsum_from count_le].
  destruct (Qle_bool (a + x) u) eqn:E; [apply Qle_bool_iff in E; lra|]. rewrite IH by lra. reflexivity.
Qed.

Lemma count_lt_above r : all_nonneg r -> forall a u, u <= a -> count_lt (cumsum_from a r) u = 0%nat.
Proof.
  induction 1 as [|x r Hx Hr IH]; intros a u Hu; [reflexivity|]. cbn [cumsum_from count_lt].
  destruct (Qle_bool u (a + x)) eqn:E; [|assert (~ u <= a + x) by (rewrite <- Qle_bool_iff; congruence); lra]. rewrite IH by lra. reflexivity.
Qed.

Lemma count_le_len xs u : (count_le xs u <= length xs)%nat.
Proof. induction xs as [|x r IH]; cbn [count_le length]; [lia|]. destruct (Qle_bool x u); lia. Qed.
Lemma count_lt_len xs u : (count_lt xs u <= length xs)%nat.
Proof. induction xs as [|x r IH]; cbn [count_lt length]; [lia|]. destruct (Qle_bool u x); lia. Qed.
Lemma cumsum_from_len p : forall a, length (cumsum_from a p) = length p.
Proof. induction p as [|x r IH]; intros a; cbn; [reflexivity|]. now rewrite IH. Qed.

(* side='right' (NumPy Generator.choice): the index i returned satisfies cdf_{i-1} <= u < cdf_i *)
Lemma np_bracket_from p : all_nonneg p -> forall a u, a <= u ->
  let i := count_le (cumsum_from a p) u in a + psum i p <= u /\ ((i < length p)%nat -> u < a + psum (S i) p).
Proof.
  induction 1 as [|x r Hx Hr IH]; intros a u Ha; cbn zeta; [cbn; split; [lra|lia]|].
  cbn [cumsum_from count_le]. destruct (Qle_bool (a + x) u) eqn:E.
  - apply Qle_bool_iff in E. specialize (IH (a + x) u E). cbn zeta in IH. destruct IH as [I1 I2].
    set (k := count_le (cumsum_from (a + x) r) u) in *. change (1 + k)%nat with (S k).
    split; [cbn [psum]; lra|]. intros Hk. cbn [length] in Hk. specialize (I2 ltac:(lia)).
    change (psum (S (S k)) (x :: r)) with (x + psum (S k) r). lra.
  - assert (Hlt : u < a + x) by (destruct (Qlt_le_dec u (a + x)) as [L|L]; [exact L|apply Qle_bool_iff in L; congruence]).
    rewrite count_le_above by (assumption || lra). cbn [Nat.add]. split; [cbn; lra|]. intros _. cbn [psum]. destruct r; cbn; lra.
Qed.

Lemma np_bracket p u : all_nonneg p -> 0 <= u ->
  let i := choice_np p u in psum i p <= u /\ ((i < length p)%nat -> u < psum (S i) p).
Proof. intros Hp Hu. pose proof (np_bracket_from p Hp 0 u Hu) as H. cbn zeta in *. unfold choice_np, cumsum. destruct H as [H1 H2]. split; [lra|]. intros Hi. specialize (H2 Hi). lra. Qed.

(* the bracket determines the index: the law of the returned index under a uniform u *)
Lemma np_law p u i : all_nonneg p -> 0 <= u -> (i < length p)%nat ->
  (choice_np p u = i <-> psum i p <= u < psum (S i) p).
Proof.
  intros Hp Hu Hi. pose proof (np_bracket p u Hp Hu) as [B1 B2]. cbn zeta in *. split.
  - intros <-. split; [exact B1|exact (B2 Hi)].
  - intros [L1 L2]. set (k := choice_np p u) in *.
    assert (Hk : (k <= length p)%nat) by (unfold k, choice_np, cumsum; rewrite <- (cumsum_from_len p 0); apply count_le_len).
    destruct (Nat.lt_trichotomy k i) as [C|[C|C]]; [|exact C|].
    + exfalso. specialize (B2 ltac:(lia)). pose proof (psum_mono_le p Hp (S k) i ltac:(lia)). lra.
    + exfalso. pose proof (psum_mono_le p Hp (S i) k ltac:(lia)). lra.
Qed.

Lemma np_in_range p u : all_nonneg p -> 0 <= u -> u < psum (length p) p -> (choice_np p u < length p)%nat.
Proof.
  intros Hp Hu Hlt. pose proof (np_bracket p u Hp Hu) as [B1 _]. cbn zeta in *. set (k := choice_np p u) in *.
  assert (Hk : (k <= length p)%nat) by (unfold k, choice_np, cumsum; rewrite <- (cumsum_from_len p 0); apply count_le_len).
  destruct (Nat.eq_dec k (length p)) as [E|E]; [rewrite E in B1; lra|lia].
Qed.

(* side='left' (ss.choice.ppf): cdf_{i-1} < u <= cdf_i *)
Lemma ppf_bracket_from p : all_nonneg p -> forall a u, a < u ->
  let i := count_lt (cumsum_from a p) u in a + psum i p < u /\ ((i < length p)%nat -> u <= a + psum (S i) p).
Proof.
  induction 1 as [|x r Hx Hr IH]; intros a u Ha; cbn zeta; [cbn; split; [lra|lia]|].
  cbn [cumsum_from count_lt]. destruct (Qle_bool u (a + x)) eqn:E.
  - apply Qle_bool_iff in E. rewrite count_lt_above by (assumption || lra). cbn [Nat.add]. split; [cbn; lra|]. intros _. cbn [psum]. destruct r; cbn; lra.
  - assert (Hlt : a + x < u) by (destruct (Qlt_le_dec (a + x) u) as [L|L]; [exact L|apply Qle_bool_iff in L; congruence]).
    specialize (IH (a + x) u Hlt). cbn zeta in IH. destruct IH as [I1 I2].
    set (k := count_lt (cumsum_from (a + x) r) u) in *. change (1 + k)%nat with (S k).
    split; [cbn [psum]; lra|]. intros Hk. cbn [length] in Hk. specialize (I2 ltac:(lia)).
    change (psum (S (S k)) (x :: r)) with (x + psum (S k) r). lra.
Qed.

Lemma ppf_law p u i : all_nonneg p -> 0 < u -> (i < length p)%nat ->
  (choice_ppf p u = i <-> psum i p < u <= psum (S i) p).
Proof.
  intros Hp Hu Hi. pose proof (ppf_bracket_from p Hp 0 u Hu) as [B1 B2]. cbn zeta in *. fold (cumsum p) in *. fold (choice_ppf p u) in *. split.
  - intros <-. split; [lra|]. specialize (B2 Hi). lra.
  - intros [L1 L2]. set (k := choice_ppf p u) in *.
    assert (Hk : (k <= length p)%nat) by (unfold k, choice_ppf, cumsum; rewrite <- (cumsum_from_len p 0); apply count_lt_len).
    destruct (Nat.lt_trichotomy k i) as [C|[C|C]]; [|exact C|].
    + exfalso. specialize (B2 ltac:(lia)). pose proof (psum_mono_le p Hp (S k) i ltac:(lia)). lra.
    + exfalso. pose proof (psum_mono_le p Hp (S i) k ltac:(lia)). lra.
Qed.

(* the two conventions agree except on the (measure-zero) set of cdf points *)
Lemma np_ppf_agree p u i : all_nonneg p -> 0 < u -> (i < length p)%nat -> psum i p < u < psum (S i) p -> choice_np p u = i /\ choice_ppf p u = i.
Proof. intros Hp Hu Hi [L1 L2]. split; [apply np_law|apply ppf_law]; try assumption; lra. Qed.

Lemma psum_scale t p : forall i, psum i (map (fun x => x / t) p) == psum i p / t.
Proof.
  induction p as [|x r IH]; intros i; [destruct i; cbn; unfold Qdiv; lra|].
  destruct i as [|i]; [cbn; unfold Qdiv; lra|]. cbn [map psum]. rewrite IH. unfold Qdiv. lra.
Qed.

Lemma normalise_nonneg p : all_nonneg p -> 0 < total p -> all_nonneg (normalise p).
Proof.
  intros Hp Ht. unfold normalise, all_nonneg in *. apply Forall_map. revert Hp. apply Forall_impl. intros x Hx.
  unfold Qdiv. apply Qmult_le_0_compat; [exact Hx|]. apply Qlt_le_weak, Qinv_lt_0_compat, Ht.
Qed.

Lemma normalise_total p : 0 < total p -> total (normalise p) == 1.
Proof.
  intros Ht. unfold total at 1, normalise. rewrite map_length. rewrite psum_scale. fold (total p). field. lra.
Qed.

(* every uniform in [0,1) selects an existing option, and option i is selected exactly on [P_i, P_{i+1}) / total, an interval of length p_i / total *)
Lemma np_norm_in_range p u : all_nonneg p -> 0 < total p -> 0 <= u < 1 -> (choice_np_norm p u < length p)%nat.
Proof.
  intros Hp Ht [H0 H1]. unfold choice_np_norm. rewrite <- (map_length (fun x => x / total p) p). fold (normalise p).
  apply np_in_range; [apply normalise_nonneg; assumption|exact H0|]. fold (total (normalise p)). rewrite normalise_total by exact Ht. exact H1.
Qed.

Lemma np_norm_law p u i : all_nonneg p -> 0 < total p -> 0 <= u -> (i < length p)%nat ->
  (choice_np_norm p u = i <-> psum i p / total p <= u < psum (S i) p / total p).
Proof.
  intros Hp Ht Hu Hi. unfold choice_np_norm. rewrite np_law; [|apply normalise_nonneg; assumption|exact Hu|unfold normalise; rewrite map_length; exact Hi].
  unfold normalise. rewrite !psum_scale. reflexivity.
Qed.

Lemma np_norm_mass p i : 0 < total p -> (i < length p)%nat -> psum (S i) p / total p - psum i p / total p == nth i p 0 / total p.
Proof. intros Ht Hi. pose proof (psum_step p i Hi) as E. unfold Qdiv. rewrite <- E. ring. Qed.
