(* Proofs about the transmission kernel (L5). *)
From SS Require Import Model.Prelude Gen.Gen_Arr Model.L2_People Gen.Gen_Disease Model.L5_Transmit Proofs.P_Arr.
From Coq Require Import Lia List Permutation Sorted QArith Lqa.
Local Open Scope nat_scope.

Lemma Qgtb_true a b : Qgtb a b = true -> (b < a)%Q.
Proof. unfold Qgtb. intros H. destruct (Qlt_le_dec b a); [assumption|]. apply Qle_bool_iff in q. rewrite q in H. discriminate. Qed.
Lemma Qgtb_intro a b : (b < a)%Q -> Qgtb a b = true.
Proof. unfold Qgtb. intros H. destruct (Qle_bool a b) eqn:E; [|reflexivity]. apply Qle_bool_iff in E. exfalso. apply (Qlt_not_le _ _ H E). Qed.

Definition hit_cond (rt rs : list cell) (s t : nat) (ebeta beta r : Q) : Prop :=
  exists a c, get_raw rt s = V a /\ get_raw rs t = V c /\ (r < a * c * (ebeta * beta))%Q.

Lemma edge_event_hit rt rs s t eb b r t' s' : edge_event rt rs s t eb b r = EvHit t' s' -> t' = t /\ s' = s /\ hit_cond rt rs s t eb b r.
Proof.
  unfold edge_event, hit_cond. destruct (get_raw rt s) as [a|]; [|discriminate]. destruct (get_raw rs t) as [c|]; [|discriminate].
  destruct (transmitted_gen _ r) eqn:E; [|discriminate]. intros H; injection H as <- <-. repeat split.
  exists a, c. repeat split. unfold transmitted_gen, p_transmit_gen, net_beta_gen in E. apply Qgtb_true in E. exact E.
Qed.

Definition dir_src (fwd : bool) (e : edge) := if fwd then e_p1 e else e_p2 e.
Definition dir_trg (fwd : bool) (e : edge) := if fwd then e_p2 e else e_p1 e.

Lemma dir_events_hit rt rs fwd beta es : forall rands t s, In (EvHit t s) (dir_events rt rs fwd beta es rands) ->
  exists e r, In e es /\ In r rands /\ s = dir_src fwd e /\ t = dir_trg fwd e /\ hit_cond rt rs s t (e_beta e) beta r.
Proof.
  induction es as [|e es IH]; intros [|r rands] t s H; cbn in H; try contradiction.
  destruct H as [H|H].
  - apply edge_event_hit in H as (-> & -> & Hc). exists e, r. repeat split; try (left; reflexivity); assumption.
  - destruct (IH rands t s H) as (e' & r' & A & B & C). exists e', r'. split; [right; exact A|]. split; [right; exact B|]. exact C.
Qed.

Lemma number_from_spec {A} (l : list A) : forall i k x, In (k, x) (number_from i l) -> i <= k /\ nth_error l (k - i) = Some x.
Proof.
  induction l as [|a t IH]; intros i k x H; cbn in H; [contradiction|]. destruct H as [H|H].
  - injection H as <- <-. split; [lia|]. replace (i - i) with 0 by lia. reflexivity.
  - apply IH in H as [L H]. split; [lia|]. replace (k - i) with (S (k - S i)) by lia. exact H.
Qed.

Lemma tasks_spec nets i fwd n : In (i, fwd, n) (tasks nets) ->
  nth_error nets i = Some n /\ n_edges n <> [] /\ ~ (dir_beta fwd n == 0)%Q.
Proof.
  unfold tasks. intros H. apply in_flat_map in H as [[k m] [Hn Ht]]. apply number_from_spec in Hn as [_ Hn].
  replace (k - 0) with k in Hn by lia. unfold net_tasks in Ht. destruct (n_edges m) eqn:E; [contradiction|].
  apply in_app_or in Ht as [Ht|Ht].
  - destruct (Qeq_bool (n_b0 m) 0) eqn:Z; [contradiction|]. destruct Ht as [Ht|[]]. injection Ht as <- <- <-.
    repeat split; [exact Hn|congruence|]. cbn. intros Q0. apply Qeq_bool_iff in Q0. congruence.
  - destruct (Qeq_bool (n_b1 m) 0) eqn:Z; [contradiction|]. destruct Ht as [Ht|[]]. injection Ht as <- <- <-.
    repeat split; [exact Hn|congruence|]. cbn. intros Q0. apply Qeq_bool_iff in Q0. congruence.
Qed.

(* every hit comes from an edge of a network, in a direction with non-zero beta, and passed the test p > r *)
Lemma all_events_hit rt rs nets rands t s i : In (EvHit t s, i) (all_events rt rs nets rands) ->
  exists n e fwd rl r, nth_error nets i = Some n /\ In e (n_edges n) /\ ~ (dir_beta fwd n == 0)%Q /\
    s = dir_src fwd e /\ t = dir_trg fwd e /\ In rl rands /\ In r rl /\ hit_cond rt rs s t (e_beta e) (dir_beta fwd n) r.
Proof.
  unfold all_events. intros H. apply in_flat_map in H as [[[[k fwd] n] rl] [Hc Hev]].
  unfold task_events in Hev. apply in_map_iff in Hev as [ev [E Hin]]. injection E as -> ->.
  pose proof (in_combine_l _ _ _ _ Hc) as Ht. pose proof (in_combine_r _ _ _ _ Hc) as Hr.
  destruct (tasks_spec _ _ _ _ Ht) as (A & _ & B).
  destruct (dir_events_hit _ _ _ _ _ _ _ _ Hin) as (e & r & C & D & E & F & G0).
  exists n, e, fwd, rl, r. repeat split; auto.
Qed.

(* masked arrays: defined exactly on the active agents *)
Lemma masked_active flag fac au u : NoDup au -> (forall x, In x au -> x < length fac) -> In u au ->
  get_raw (masked flag fac au) u = V (b2q (qtrue (get_raw flag u)) * cell_q (get_raw fac u)).
Proof.
  intros ND B Hu. unfold masked. rewrite get_set_many; [|exact ND|rewrite map_length; reflexivity|intros x Hx; rewrite repeat_length; apply B; exact Hx].
  clear B. induction au as [|a au IH]; [contradiction|]. cbn [map combine find fst].
  destruct (Nat.eqb_spec a u) as [->|N]; [reflexivity|]. inversion ND; subst. destruct Hu as [Hu|Hu]; [contradiction|]. apply IH; assumption.
Qed.

Lemma masked_inactive flag fac au u : NoDup au -> (forall x, In x au -> x < length fac) -> ~ In u au ->
  get_raw (masked flag fac au) u = G.
Proof.
  intros ND B Hu. unfold masked. rewrite get_set_many; [|exact ND|rewrite map_length; reflexivity|intros x Hx; rewrite repeat_length; apply B; exact Hx].
  assert (F : find (fun p : nat * Q => Nat.eqb (fst p) u) (combine au (map (fun u0 => (b2q (qtrue (get_raw flag u0)) * cell_q (get_raw fac u0))%Q) au)) = None).
  { destruct (find _ _) as [p|] eqn:F; [|reflexivity]. apply find_some in F as [Hin Hp]. apply Nat.eqb_eq in Hp.
    destruct p as [a b]. cbn in Hp; subst. apply in_combine_l in Hin. contradiction. }
  rewrite F. unfold get_raw. apply nth_repeat.
Qed.

(* dedup: np.unique(return_index=True) *)
Lemma first_of_in t hs h : first_of t hs = Some h -> In h hs /\ fst (fst h) = t.
Proof. unfold first_of. intros H. apply find_some in H as [A B]. apply Nat.eqb_eq in B. split; assumption. Qed.

Lemma dedup_in hs h : In h (dedup hs) -> In h hs /\ first_of (fst (fst h)) hs = Some h.
Proof.
  unfold dedup. intros H. apply in_flat_map in H as [t [_ Hh]]. destruct (first_of t hs) as [h'|] eqn:F; [|contradiction].
  destruct Hh as [<-|[]]. destruct (first_of_in _ _ _ F) as [A B]. split; [exact A|]. rewrite B. exact F.
Qed.

Lemma dedup_targets hs : map (fun h => fst (fst h)) (dedup hs) = sort_unique (map (fun h => fst (fst h)) hs).
Proof.
  unfold dedup. set (ts := sort_unique _).
  assert (Hall : forall t, In t ts -> exists h, first_of t hs = Some h /\ fst (fst h) = t).
  { intros t Ht. unfold ts in Ht. apply (proj1 (sort_unique_in _ _)) in Ht. apply in_map_iff in Ht as [h [<- Hh]].
    unfold first_of. destruct (find _ hs) as [h'|] eqn:F.
    - exists h'. split; [reflexivity|]. apply find_some in F as [_ B]. apply Nat.eqb_eq in B. exact B.
    - exfalso. apply (find_none _ _ F) in Hh. rewrite Nat.eqb_refl in Hh. discriminate. }
  clearbody ts. induction ts as [|t ts IH]; [reflexivity|]. cbn [flat_map].
  destruct (Hall t (or_introl eq_refl)) as [h [F E]]. rewrite F. cbn. rewrite E. f_equal. apply IH. intros x Hx. apply Hall. right; exact Hx.
Qed.

Lemma hits_in evs t s i : In (t, s, i) (hits evs) <-> In (EvHit t s, i) evs.
Proof.
  unfold hits. rewrite in_flat_map. split.
  - intros [[ev k] [Hin H]]. cbn in H. destruct ev; try contradiction. destruct H as [H|[]]. injection H as -> -> ->. exact Hin.
  - intros H. exists (EvHit t s, i). split; [exact H|]. cbn. left; reflexivity.
Qed.

Lemma Qmult_pos_factors a c x r : (0 <= r)%Q -> (r < a * c * x)%Q -> ~ (a == 0)%Q /\ ~ (c == 0)%Q /\ ~ (x == 0)%Q.
Proof. intros H0 H. repeat split; intros Z; rewrite Z in H; ring_simplify in H; lra. Qed.

Lemma b2q_factor b q : ~ (b2q b * q == 0)%Q -> b = true /\ ~ (q == 0)%Q.
Proof. destruct b; cbn; intros H; split; auto; try (intros Z; apply H; rewrite Z; ring); exfalso; apply H; ring. Qed.

Definition rands_nonneg (rands : list (list Q)) : Prop := forall rl r, In rl rands -> In r rl -> (0 <= r)%Q.

(* THE ADMISSIBILITY THEOREM *)
Theorem new_case_admissible inf sus rel_trans rel_sus au nets rands res t s i :
  NoDup au -> (forall x, In x au -> x < length rel_trans) -> (forall x, In x au -> x < length rel_sus) -> rands_nonneg rands ->
  infect inf sus rel_trans rel_sus au nets rands = Some res -> In (t, s, i) res ->
  exists n e fwd, nth_error nets i = Some n /\ In e (n_edges n) /\ s = dir_src fwd e /\ t = dir_trg fwd e /\
    ~ (dir_beta fwd n == 0)%Q /\ ~ (e_beta e == 0)%Q /\
    In s au /\ In t au /\
    qtrue (get_raw inf s) = true /\ qtrue (get_raw sus t) = true /\
    ~ (cell_q (get_raw rel_trans s) == 0)%Q /\ ~ (cell_q (get_raw rel_sus t) == 0)%Q.
Proof.
  intros ND B1 B2 RN Hinf Hin. unfold infect in Hinf.
  destruct (has_garbage _); [discriminate|]. injection Hinf as <-.
  apply dedup_in in Hin as [Hin _]. apply hits_in in Hin.
  destruct (all_events_hit _ _ _ _ _ _ _ Hin) as (n & e & fwd & rl & r & A & B & C & D & E & F & Gr & (a & c & Ha & Hc & Hlt)).
  exists n, e, fwd. repeat split; auto.
  all: assert (Hs : In s au) by (destruct (in_dec Nat.eq_dec s au) as [Y|N]; [exact Y|]; rewrite masked_inactive in Ha by assumption; discriminate).
  all: assert (Ht : In t au) by (destruct (in_dec Nat.eq_dec t au) as [Y|N]; [exact Y|]; rewrite masked_inactive in Hc by assumption; discriminate).
  all: rewrite masked_active in Ha by assumption; rewrite masked_active in Hc by assumption; injection Ha as <-; injection Hc as <-.
  all: destruct (Qmult_pos_factors _ _ _ _ (RN rl r F Gr) Hlt) as (Na & Nc & Nx).
  all: destruct (b2q_factor _ _ Na) as [I1 I2]; destruct (b2q_factor _ _ Nc) as [S1 S2]; auto.
  intros Z. apply Nx. rewrite Z. ring.
Qed.

(* at most once per step, sorted; the recorded source is that of the first admissible occurrence *)
Theorem targets_unique inf sus rel_trans rel_sus au nets rands res :
  infect inf sus rel_trans rel_sus au nets rands = Some res ->
  StronglySorted lt (map (fun h => fst (fst h)) res) /\ NoDup (map (fun h => fst (fst h)) res).
Proof.
  unfold infect. destruct (has_garbage _); [discriminate|]. intros H; injection H as <-. rewrite dedup_targets.
  split; [apply sort_unique_sorted|apply sorted_lt_nodup, sort_unique_sorted].
Qed.

Theorem first_source_kept inf sus rel_trans rel_sus au nets rands res h :
  infect inf sus rel_trans rel_sus au nets rands = Some res -> In h res ->
  first_of (fst (fst h)) (hits (all_events (masked inf rel_trans au) (masked sus rel_sus au) nets rands)) = Some h.
Proof.
  unfold infect. destruct (has_garbage _); [discriminate|]. intros H; injection H as <-. intros Hin. apply dedup_in in Hin as [_ F]. exact F.
Qed.

(* ------------------------------------------------------------------ no crossing of zero factors *)
Theorem no_zero_crossing rt rs s t eb b r : (0 <= r)%Q ->
  (cell_q (get_raw rt s) == 0 \/ cell_q (get_raw rs t) == 0 \/ eb == 0 \/ b == 0)%Q ->
  forall t' s', edge_event rt rs s t eb b r <> EvHit t' s'.
Proof.
  intros Hr Hz t' s' H. apply edge_event_hit in H as (_ & _ & (a & c & Ha & Hc & Hlt)).
  rewrite Ha, Hc in Hz. cbn in Hz.
  destruct (Qmult_pos_factors _ _ _ _ Hr Hlt) as (Na & Nc & Nx).
  destruct Hz as [Z|[Z|[Z|Z]]]; try contradiction; apply Nx; rewrite Z; ring.
Qed.

(* an edge to an agent that is not active makes the outcome depend on uninitialised memory *)
Theorem inactive_endpoint_is_garbage flag fac rs au s t eb b r : NoDup au -> (forall x, In x au -> x < length fac) -> ~ In s au ->
  edge_event (masked flag fac au) rs s t eb b r = EvGarbage.
Proof. intros ND B N. unfold edge_event. rewrite masked_inactive by assumption. reflexivity. Qed.

(* ------------------------------------------------------------------ monotone in beta *)
Definition cells_nonneg (l : list cell) : Prop := forall u, (0 <= cell_q (get_raw l u))%Q.

Lemma edge_event_mono rt rs s t eb b b' r t' s' : cells_nonneg rt -> cells_nonneg rs -> (0 <= eb)%Q -> (b <= b')%Q ->
  edge_event rt rs s t eb b r = EvHit t' s' -> edge_event rt rs s t eb b' r = EvHit t' s'.
Proof.
  intros N1 N2 He Hb H. pose proof (N1 s) as P1. pose proof (N2 t) as P2. unfold edge_event in *.
  destruct (get_raw rt s) as [a|]; [|discriminate]. destruct (get_raw rs t) as [c|]; [|discriminate]. cbn in P1, P2.
  destruct (transmitted_gen (p_transmit_gen a c (net_beta_gen eb b)) r) eqn:E; [|discriminate].
  unfold transmitted_gen, p_transmit_gen, net_beta_gen in *. apply Qgtb_true in E.
  assert (L : (a * c * (eb * b) <= a * c * (eb * b'))%Q).
  {
    assert (0 <= a * c)%Q by (apply Qmult_le_0_compat; assumption).
    assert (eb * b <= eb * b')%Q by (destruct (Qeq_dec eb 0) as [Z|Z]; [rewrite Z; lra|apply Qmult_le_l; [lra|assumption]]).
    destruct (Qeq_dec (a * c) 0) as [Z|Z]; [rewrite Z; lra|]. apply Qmult_le_l; [lra|assumption]. }
  rewrite (Qgtb_intro _ _ (Qlt_le_trans _ _ _ E L)). exact H.
Qed.

Lemma dir_events_mono rt rs fwd b b' es : cells_nonneg rt -> cells_nonneg rs -> (forall e, In e es -> 0 <= e_beta e)%Q -> (b <= b')%Q ->
  forall rands t s, In (EvHit t s) (dir_events rt rs fwd b es rands) -> In (EvHit t s) (dir_events rt rs fwd b' es rands).
Proof.
  intros N1 N2 He Hb. induction es as [|e es IH]; intros [|r rands] t s H; cbn in *; try contradiction.
  destruct H as [H|H]; [left; eapply edge_event_mono; eauto|right; apply IH; auto].
Qed.

(* networks related by a pointwise larger beta with the same zero pattern (so the same calls are made) *)
Definition net_le (n n' : netw) : Prop :=
  n_edges n = n_edges n' /\ (n_b0 n <= n_b0 n')%Q /\ (n_b1 n <= n_b1 n')%Q /\
  Qeq_bool (n_b0 n) 0 = Qeq_bool (n_b0 n') 0 /\ Qeq_bool (n_b1 n) 0 = Qeq_bool (n_b1 n') 0 /\
  (forall e, In e (n_edges n) -> 0 <= e_beta e)%Q.

Lemma tasks_mono nets : forall nets' i0, Forall2 net_le nets nets' ->
  Forall2 (fun t t' => fst t = fst t' /\ net_le (snd t) (snd t')) (flat_map net_tasks (number_from i0 nets)) (flat_map net_tasks (number_from i0 nets')).
Proof.
  induction nets as [|n ns IH]; intros nets' i0 H; inversion H as [|? n' ? ns' Hn Hns]; subst; cbn [number_from flat_map]; [constructor|].
  apply Forall2_app; [|apply IH; exact Hns].
  destruct Hn as (E & L0 & L1 & Z0 & Z1 & Pe). unfold net_tasks. rewrite <- E, <- Z0, <- Z1.
  destruct (n_edges n) eqn:En; [constructor|].
  assert (R : net_le n n') by (repeat split; auto; rewrite En; auto).
  apply Forall2_app; [destruct (Qeq_bool (n_b0 n) 0)|destruct (Qeq_bool (n_b1 n) 0)];
    try (constructor; fail); (constructor; [split; [reflexivity|exact R]|constructor]).
Qed.

Theorem beta_monotone rt rs nets nets' rands : cells_nonneg rt -> cells_nonneg rs -> Forall2 net_le nets nets' ->
  forall t s i, In (EvHit t s, i) (all_events rt rs nets rands) -> In (EvHit t s, i) (all_events rt rs nets' rands).
Proof.
  intros N1 N2 F t s i. unfold all_events, tasks. pose proof (tasks_mono nets nets' 0 F) as T.
  revert rands. induction T as [|[[k fwd] n] [[k' fwd'] n'] l l' [E R] T IH]; intros rands H; [destruct rands; exact H|].
  destruct rands as [|rl rands]; [exact H|]. cbn [combine flat_map] in *. cbn in E. injection E as <- <-.
  apply in_app_or in H as [H|H]; apply in_or_app; [left|right; apply IH; exact H].
  unfold task_events in *. apply in_map_iff in H as [ev [Eq Hin]]. injection Eq as -> <-.
  apply in_map_iff. exists (EvHit t s). split; [reflexivity|].
  destruct R as (Ee & L0 & L1 & _ & _ & Pe). cbn [snd] in *. rewrite <- Ee.
  eapply dir_events_mono; eauto. destruct fwd; cbn; assumption.
Qed.

(* ------------------------------------------------------------------ mixing pool *)
Theorem pool_cases_in_dst probs dst us x : In x (pool_new_cases probs dst us) -> In x dst.
Proof.
  unfold pool_new_cases. intros H. apply in_map_iff in H as [[u pr] [<- Hin]]. apply filter_In in Hin as [Hin _].
  apply in_combine_l in Hin. exact Hin.
Qed.

Lemma pool_case_prob_positive probs dst us x : (forall u, In u us -> 0 <= u)%Q -> In x (pool_new_cases probs dst us) ->
  exists p, In p probs /\ (0 < p)%Q.
Proof.
  intros Hu H. unfold pool_new_cases in H. apply in_map_iff in H as [[u [p r]] [_ Hin]]. apply filter_In in Hin as [Hin Hlt].
  cbn in Hlt. exists p. split.
  - apply in_combine_r in Hin. apply in_combine_l in Hin. exact Hin.
  - assert (0 <= r)%Q by (apply Hu; apply in_combine_r in Hin; apply in_combine_r in Hin; exact Hin).
    unfold Qltb in Hlt. destruct (Qle_bool p r) eqn:E; [discriminate|]. destruct (Qlt_le_dec r p); [lra|]. apply Qle_bool_iff in q. congruence.
Qed.

(* ---- the proviso "same calls made" of beta_monotone is needed: a direction whose beta is 0 makes no call and consumes no random numbers, so raising
   an EARLIER beta from 0 to a positive value shifts the random numbers of every later call (one shared stream, one call per executed direction) *)
Definition net_le_weak (n n' : netw) : Prop := n_edges n = n_edges n' /\ (n_b0 n <= n_b0 n')%Q /\ (n_b1 n <= n_b1 n')%Q.
Lemma beta_monotone_needs_same_calls : exists rt rs nets nets' rands t s i,
  Forall2 net_le_weak nets nets' /\ In (EvHit t s, i) (all_events rt rs nets rands) /\ ~ In (EvHit t s, i) (all_events rt rs nets' rands).
Proof.
  exists [V 1; V 1; V 1; V 1], [V 1; V 1; V 1; V 1],
         [mkNet [mkEdge 0 1 1] 0 0; mkNet [mkEdge 2 3 1] (1 # 2) 0], [mkNet [mkEdge 0 1 1] (1 # 1000) 0; mkNet [mkEdge 2 3 1] (1 # 2) 0],
         [[1 # 10]; [9 # 10]]%Q, 3%nat, 2%nat, 1%nat.
  split; [|split].
  - repeat constructor; cbn; try reflexivity; try (unfold Qle; cbn; lia).
  - vm_compute. left. reflexivity.
  - vm_compute. intros [H|[H|[]]]; discriminate.
Qed.
