(* Proofs about timelines (L3). *)
From SS Require Import Model.Prelude Model.L3_Units Gen.Gen_Time Model.L3_Timeline.
From Coq Require Import Lia List QArith Qround Lqa.

(* ------------------------------------------------------------------ rational grids *)
Lemma grid_length s dt n : length (grid s dt n) = Z.to_nat (n + 1).
Proof. unfold grid. rewrite map_length, seq_length. reflexivity. Qed.

Lemma grid_nth s dt n i : (i < Z.to_nat (n + 1))%nat -> nth i (grid s dt n) 0 == s + inject_Z (Z.of_nat i) * dt.
Proof.
  intros H. unfold grid.
  rewrite (nth_indep _ 0 (s + inject_Z (Z.of_nat 0) * dt)) by (rewrite map_length, seq_length; exact H).
  rewrite (map_nth (fun i0 => s + inject_Z (Z.of_nat i0) * dt)), seq_nth by exact H. reflexivity.
Qed.

Theorem grid_first s dt n : (0 <= n)%Z -> nth 0 (grid s dt n) 0 == s.
Proof. intros H. rewrite grid_nth by lia. cbn. ring. Qed.

Theorem grid_uniform s dt n i : (S i < Z.to_nat (n + 1))%nat ->
  nth (S i) (grid s dt n) 0 - nth i (grid s dt n) 0 == dt.
Proof.
  intros H. rewrite !grid_nth by lia. rewrite Nat2Z.inj_succ. unfold Z.succ. rewrite inject_Z_plus. ring.
Qed.

Theorem grid_increasing s dt n i : 0 < dt -> (S i < Z.to_nat (n + 1))%nat -> nth i (grid s dt n) 0 < nth (S i) (grid s dt n) 0.
Proof. intros Hd H. pose proof (grid_uniform s dt n i H). lra. Qed.

(* int(x) for x >= 0 is the floor *)
Lemma Qtrunc_nonneg q : 0 <= q -> Qtrunc q = Qfloor q.
Proof. intros H. unfold Qtrunc. apply Qle_bool_iff in H. rewrite H. reflexivity. Qed.

(* the grid ends at the last point not after stop *)
Theorem incl_range_end start stop dt : 0 < dt -> start <= stop ->
  let n := n_steps start stop dt in
  (0 <= n)%Z /\ length (incl_range start stop dt) = Z.to_nat (n + 1) /\
  start + inject_Z n * dt <= stop /\ stop < start + inject_Z n * dt + dt.
Proof.
  intros Hd Hs. cbv zeta. unfold incl_range, n_steps.
  assert (Hq : 0 <= (stop - start) / dt) by (apply Qle_shift_div_l; [exact Hd|lra]).
  rewrite (Qtrunc_nonneg _ Hq).
  pose proof (Qfloor_le ((stop - start) / dt)) as F1. pose proof (Qlt_floor ((stop - start) / dt)) as F2.
  assert (Hn : (0 <= Qfloor ((stop - start) / dt))%Z).
  { change 0%Z with (Qfloor 0). apply Qfloor_resp_le. exact Hq. }
  repeat split; auto.
  - apply grid_length.
  - assert (inject_Z (Qfloor ((stop - start) / dt)) * dt <= (stop - start) / dt * dt) by (apply Qmult_le_compat_r; lra).
    assert ((stop - start) / dt * dt == stop - start) by (field; lra). lra.
  - rewrite inject_Z_plus in F2. change (inject_Z 1) with 1 in F2.
    assert ((stop - start) / dt * dt < (inject_Z (Qfloor ((stop - start) / dt)) + 1) * dt) by (apply Qmult_lt_compat_r; lra).
    assert ((stop - start) / dt * dt == stop - start) by (field; lra). lra.
Qed.

(* calendar arithmetic: see Proofs/P_Calendar.v (every day number, by one-era sweep + era periodicity) *)

(* ------------------------------------------------------------------ calendar grids *)
Lemma date_steps_spec fuel : forall cur stop step, (0 < step)%Z ->
  forall i d, nth_error (date_steps fuel cur stop step) i = Some d -> d = (cur + Z.of_nat i * step)%Z /\ (d <= stop)%Z.
Proof.
  induction fuel as [|f IH]; intros cur stop step Hs i d H; cbn in H; [destruct i; discriminate|].
  destruct (Z.leb_spec cur stop); [|destruct i; discriminate].
  destruct i as [|i]; cbn in H.
  - injection H as <-. split; lia.
  - destruct (IH _ _ _ Hs i d H) as [E L]. split; [rewrite E; lia|exact L].
Qed.

(* day-based grids: exact spacing of `step` days, start exact, never past stop *)
Theorem calendar_grid_spacing u start stop dt i d1 d2 : (0 < day_step u dt)%Z ->
  nth_error (tl_dates (calendar_timeline u start stop dt)) i = Some d1 ->
  nth_error (tl_dates (calendar_timeline u start stop dt)) (S i) = Some d2 ->
  (d2 - d1 = day_step u dt)%Z /\ (d2 <= stop)%Z.
Proof.
  intros Hs H1 H2. unfold calendar_timeline in *. cbn [tl_dates] in *.
  destruct (Z.leb_spec (day_step u dt) 0); [lia|].
  destruct (date_steps_spec _ _ _ _ Hs _ _ H1) as [E1 _]. destruct (date_steps_spec _ _ _ _ Hs _ _ H2) as [E2 L2]. split; lia.
Qed.

Theorem calendar_grid_start u start stop dt d : (0 < day_step u dt)%Z ->
  nth_error (tl_dates (calendar_timeline u start stop dt)) 0 = Some d -> d = start.
Proof.
  intros Hs H. unfold calendar_timeline in *. cbn [tl_dates] in *. destruct (Z.leb_spec (day_step u dt) 0); [lia|].
  destruct (date_steps_spec _ _ _ _ Hs _ _ H) as [E _]. lia.
Qed.

(* whole days per step: the elapsed-time and date representations agree; fractional weeks do not *)
Theorem day_step_whole u k : has_units u = true -> (0 < k)%Z -> (u = UDay \/ u = UWeek) ->
  inject_Z (day_step u (inject_Z k)) == inject_Z k * unit_q u.
Proof.
  intros _ Hk [-> | ->]; unfold day_step.
  - assert (E : Qeq_bool (inject_Z (Qtrunc (inject_Z k))) (inject_Z k) = true).
    { apply Qeq_bool_iff. unfold Qtrunc. assert (Qle_bool 0 (inject_Z k) = true) by (apply Qle_bool_iff; change 0 with (inject_Z 0); rewrite <- Zle_Qle; lia).
      rewrite H, Qfloor_Z. reflexivity. }
    rewrite E. unfold Qtrunc. assert (H : Qle_bool 0 (inject_Z k) = true) by (apply Qle_bool_iff; change 0 with (inject_Z 0); rewrite <- Zle_Qle; lia).
    rewrite H, Qfloor_Z. cbn. rewrite Z.mul_1_r. ring.
  - assert (E : Qeq_bool (inject_Z (Qtrunc (inject_Z k))) (inject_Z k) = true).
    { apply Qeq_bool_iff. unfold Qtrunc. assert (Qle_bool 0 (inject_Z k) = true) by (apply Qle_bool_iff; change 0 with (inject_Z 0); rewrite <- Zle_Qle; lia).
      rewrite H, Qfloor_Z. reflexivity. }
    rewrite E. unfold Qtrunc. assert (H : Qle_bool 0 (inject_Z k) = true) by (apply Qle_bool_iff; change 0 with (inject_Z 0); rewrite <- Zle_Qle; lia).
    rewrite H, Qfloor_Z. cbn. rewrite inject_Z_mult. ring.
Qed.

Theorem fractional_weeks_drift_refuted :
  let tl := calendar_timeline UWeek (ord_of 2021 1 1) (ord_of 2021 3 1) (3 # 2) in
  (nth 3 (tl_dates tl) 0 - nth 0 (tl_dates tl) 0 = 30)%Z /\ nth 3 (tl_tvec tl) 0 * unit_q UWeek == (63 # 2).
Proof. vm_compute. split; reflexivity. Qed.

Lemma round_half_even_comp a b : a == b -> round_half_even a = round_half_even b.
Proof.
  intros E. unfold round_half_even. rewrite (Qfloor_comp _ _ E).
  assert (C : Qcompare (a - inject_Z (Qfloor b)) (1 # 2) = Qcompare (b - inject_Z (Qfloor b)) (1 # 2)) by (rewrite E; reflexivity).
  rewrite C. reflexivity.
Qed.

(* a module on the sim's own timeline is placed on the sim's own elapsed-time vector *)
Theorem abstvec_same_timeline u tv s : Forall2 Qeq (abstvec_numeric u u tv s s) (map round6 tv).
Proof.
  unfold abstvec_numeric. assert (E : unit_eqb u u = true) by (destruct u; reflexivity). rewrite E.
  induction tv as [|t tv IH]; cbn; constructor; auto.
  unfold round6. assert (X : t * 1 + (s - s) == t) by ring.
  rewrite (round_half_even_comp _ _ (Qmult_comp _ _ X _ _ (Qeq_refl 1000000))). reflexivity.
Qed.

(* ------------------------------------------------------------------ clauses of the property that the faithful model refutes (witnesses by computation;
   the same inputs are replayed on the implementation by the witness programs of the listed findings) *)
(* a yearly calendar grid whose stop is exactly two calendar years after a start that is not 1 January loses the stop *)
Lemma year_grid_mid_year_refuted :
  let tl := year_calendar_timeline (ord_of 2004 12 31) (ord_of 2006 12 31) 1 in
  tl_npts tl = 2%nat /\ last (tl_dates tl) 0%Z <> ord_of 2006 12 31.
Proof. vm_compute. split; [reflexivity|discriminate]. Qed.
(* start + dur with a calendar start: stop = start + round(365.25 dur) days falls one day short of the grid point in a leap year: a single point *)
Lemma date_start_plus_year_refuted : tl_npts (year_calendar_timeline (ord_of 2000 1 1) (ord_of 2000 1 1 + 365) 1) = 1%nat.
Proof. vm_compute. reflexivity. Qed.
(* a module in weeks starting at 2 on a sim in days starting at 0 is placed at day 2, 9, 16 ...: the start offset is not converted (week 2 is day 14) *)
Lemma start_offset_not_converted_refuted : abstvec_numeric UWeek UDay [0; 1; 2]%Q 2 0 = [2.000000; 9.000000; 16.000000]%Q.
Proof. vm_compute. reflexivity. Qed.
(* on a month-unit calendar sim the sim's own axis counts months (0, 1, 2) while every module, even one with the sim's dates, is placed at days / 30.4375 *)
Lemma month_sim_module_axis_refuted :
  abstvec_days [ord_of 2000 1 1; ord_of 2000 2 1; ord_of 2000 3 1] (ord_of 2000 1 1) UMonth <> tvec_of 3 1.
Proof. vm_compute. discriminate. Qed.
