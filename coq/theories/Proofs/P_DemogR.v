From SS Require Import Model.Prelude Model.L3_Units Gen.Gen_Time Gen.Gen_Demog.
From Coq Require Import Reals Lra.
Open Scope R_scope.
Lemma routine_compounds p dt : 0 <= p < 1 -> 0 < dt -> 1 - Rpower (1 - routine_prob_gen p dt) (/ dt) = p.
Proof.
  intros Hp Hd. unfold routine_prob_gen.
  replace (1 - (IZR 1 - Rpower (IZR 1 - p) dt)) with (Rpower (1 - p) dt) by ring.
  rewrite Rpower_mult. rewrite Rinv_r by lra. rewrite Rpower_1 by lra. ring.
Qed.
Lemma routine_unit_blind p : 0 <= p < 1 -> routine_prob_gen p 1 = p.
Proof. intros Hp. unfold routine_prob_gen. rewrite Rpower_1 by lra. ring. Qed.

(* ---- sexual networks: per-act transmission compounded over acts x dt acts per step (networks.py SexualNetwork.net_beta, generated) *)
Lemma sexual_survival b acts dt : 0 <= b < 1 -> 1 - sexual_net_beta_gen 1 b acts dt = Rpower (1 - b) (acts * dt).
Proof. intros Hb. unfold sexual_net_beta_gen. change (IZR 1) with 1. ring. Qed.

Lemma ln_Rpower x y : 0 < x -> ln (Rpower x y) = y * ln x.
Proof. intros Hx. unfold Rpower. apply ln_exp. Qed.

(* with a per-act probability b (a plain number), the hazard per unit time is acts x (-ln(1-b)) whatever the step *)
Lemma sexual_hazard_step_free b acts dt : 0 <= b < 1 -> 0 < dt ->
  - ln (1 - sexual_net_beta_gen 1 b acts dt) / dt = acts * - ln (1 - b).
Proof. intros Hb Hd. rewrite sexual_survival by exact Hb. rewrite ln_Rpower by lra. field. lra. Qed.

(* and the per-step probabilities of one unit of time compound to the per-unit-time probability 1 - (1-b)^acts *)
Lemma sexual_compounds b acts dt : 0 <= b < 1 -> 0 < dt ->
  Rpower (1 - sexual_net_beta_gen 1 b acts dt) (/ dt) = Rpower (1 - b) acts.
Proof.
  intros Hb Hd. rewrite sexual_survival by exact Hb. rewrite Rpower_mult. f_equal. field. lra.
Qed.

(* a disease beta that is already a per-step probability (ss.beta: 1 - (1-b)^dt) is compounded with dt a second time: the hazard per unit time is
   proportional to the step *)
Definition beta_per_step (b dt : R) : R := 1 - Rpower (1 - b) dt.
Lemma sexual_hazard_time_scaled b acts dt : 0 <= b < 1 -> 0 < dt ->
  - ln (1 - sexual_net_beta_gen 1 (beta_per_step b dt) acts dt) / dt = dt * (acts * - ln (1 - b)).
Proof.
  intros Hb Hd. unfold sexual_net_beta_gen, beta_per_step. change (IZR 1) with 1.
  replace (1 - 1 * (1 - Rpower (1 - (1 - Rpower (1 - b) dt)) (acts * dt))) with (Rpower (Rpower (1 - b) dt) (acts * dt)) by (replace (1 - (1 - Rpower (1 - b) dt)) with (Rpower (1 - b) dt) by ring; ring).
  rewrite Rpower_mult, ln_Rpower by lra. field. lra.
Qed.

Lemma sexual_time_scaled_refuted : exists b acts dt1 dt2, 0 <= b < 1 /\ 0 < dt1 /\ 0 < dt2 /\
  - ln (1 - sexual_net_beta_gen 1 (beta_per_step b dt1) acts dt1) / dt1 <> - ln (1 - sexual_net_beta_gen 1 (beta_per_step b dt2) acts dt2) / dt2.
Proof.
  exists (1/2), 1, 1, (1/2). repeat split; try lra.
  rewrite !sexual_hazard_time_scaled by lra.
  assert (H : ln (1 - 1 / 2) < 0). { replace (1 - 1 / 2) with (/ 2) by field. rewrite ln_Rinv by lra. pose proof ln_lt_2. lra. }
  lra.
Qed.
