From SS Require Import Model.Prelude Model.L3_Units Gen.Gen_Time Gen.Gen_Demog.
From Coq Require Import Reals Lra.
Open Scope R_scope.
Lemma routine_compounds p dt : 0 <= p < 1 -> 0 < dt -> 1 - Rpower (1 - routine_prob_gen p dt) (/ dt) = p.
Proof.
  intros Hp Hd. unfold routine_prob_gen.
  replace (1 - (IZR 1 - Rpower (IZR 1 - p) dt)) with (Rpower (1 - p) dt) by ring.
  rewrite Rpower_mult. rewrite Rinv_r by lra. rewrite Rpower_1 by lra. ring.
Qed.
Lemma routine_unit_blind p : 0 <= p < 1 -> routine_prob_gen p 1 = p.
Proof. intros Hp. unfold routine_prob_gen. rewrite Rpower_1 by lra. ring. Qed.
