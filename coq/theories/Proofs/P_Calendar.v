(* The proleptic Gregorian calendar of the timeline model, for EVERY day number (no bound): a finite sweep over one 400-year era
   (146 097 days) lifted to all integers by the era periodicity of both conversions. *)
From SS Require Import Model.Prelude Model.L3_Units Gen.Gen_Time Model.L3_Timeline.
From Coq Require Import ZArith QArith List Lia Bool.
Open Scope Z_scope.

Definition era_days : Z := 146097.

Lemma cfd_shift z k : civil_from_days (z + k * 146097) = let '(y, m, d) := civil_from_days z in (y + 400 * k, m, d).
Proof.
  unfold civil_from_days. cbv zeta.
  replace (z + k * 146097 + 719468) with (z + 719468 + k * 146097) by ring.
  rewrite Z.div_add by lia.
  set (e := (z + 719468) / 146097).
  replace (z + 719468 + k * 146097 - (e + k) * 146097) with (z + 719468 - e * 146097) by ring.
  set (doe := z + 719468 - e * 146097).
  set (yoe := (doe - doe / 1460 + doe / 36524 - doe / 146096) / 365).
  set (doy := doe - (365 * yoe + yoe / 4 - yoe / 100)).
  set (mp := (5 * doy + 2) / 153).
  destruct ((if mp <? 10 then mp + 3 else mp - 9) <=? 2); f_equal; f_equal; ring.
Qed.

Lemma dfc_shift y m d k : days_from_civil (y + 400 * k) m d = days_from_civil y m d + k * 146097.
Proof.
  unfold days_from_civil. cbv zeta. destruct (m <=? 2).
  - replace (y + 400 * k - 1) with (y - 1 + k * 400) by ring. rewrite Z.div_add by lia.
    replace (y - 1 + k * 400 - ((y - 1) / 400 + k) * 400) with (y - 1 - (y - 1) / 400 * 400) by ring. ring.
  - replace (y + 400 * k) with (y + k * 400) by ring. rewrite Z.div_add by lia.
    replace (y + k * 400 - (y / 400 + k) * 400) with (y - y / 400 * 400) by ring. ring.
Qed.

Lemma is_leap_shift y k : is_leap (y + 400 * k) = is_leap y.
Proof.
  unfold is_leap.
  replace ((y + 400 * k) mod 4) with (y mod 4) by (replace (y + 400 * k) with (y + (100 * k) * 4) by ring; now rewrite Z_mod_plus_full).
  replace ((y + 400 * k) mod 100) with (y mod 100) by (replace (y + 400 * k) with (y + (4 * k) * 100) by ring; now rewrite Z_mod_plus_full).
  replace ((y + 400 * k) mod 400) with (y mod 400) by (replace (y + 400 * k) with (y + k * 400) by ring; now rewrite Z_mod_plus_full).
  reflexivity.
Qed.

Lemma month_len_shift y m k : month_len (y + 400 * k) m = month_len y m.
Proof. unfold month_len. now rewrite is_leap_shift. Qed.

(* a Z-indexed bounded universal quantifier that the VM evaluates in linear time *)
Fixpoint all_from (f : Z -> bool) (z : Z) (n : nat) : bool :=
  match n with O => true | S n' => if f z then all_from f (z + 1) n' else false end.
Lemma all_from_spec f n : forall z, all_from f z n = true -> forall i, z <= i < z + Z.of_nat n -> f i = true.
Proof.
  induction n as [|n IH]; intros z H i Hi; [lia|]. cbn [all_from] in H. destruct (f z) eqn:E; [|discriminate].
  destruct (Z.eq_dec i z) as [->|Hne]; [exact E|]. apply (IH (z + 1) H). lia.
Qed.

(* ---- one era: 0000-03-01 .. 0400-02-29 *)
Definition era_lo : Z := -719468.
Definition civil_ok_full (z : Z) : bool :=
  let '(y, m, d) := civil_from_days z in
  (days_from_civil y m d =? z) && (1 <=? m) && (m <=? 12) && (1 <=? d) && (d <=? month_len y m).
Lemma era_sweep_civil : all_from civil_ok_full era_lo (Z.to_nat era_days) = true.
Proof. vm_cast_no_check (eq_refl true). Qed.

Theorem civil_roundtrip_all z :
  let '(y, m, d) := civil_from_days z in days_from_civil y m d = z /\ 1 <= m <= 12 /\ 1 <= d <= month_len y m.
Proof.
  set (k := (z + 719468) / 146097). set (z0 := z - k * 146097).
  assert (Hr : era_lo <= z0 < era_lo + Z.of_nat (Z.to_nat era_days)).
  { unfold z0, k, era_lo, era_days. pose proof (Z.div_mod (z + 719468) 146097 ltac:(lia)). pose proof (Z.mod_pos_bound (z + 719468) 146097 ltac:(lia)). lia. }
  pose proof (all_from_spec _ _ _ era_sweep_civil z0 Hr) as S.
  replace z with (z0 + k * 146097) by (unfold z0; ring). rewrite cfd_shift.
  unfold civil_ok_full in S. destruct (civil_from_days z0) as [[y m] d].
  rewrite dfc_shift, month_len_shift.
  apply andb_prop in S as [S E]. apply andb_prop in S as [S D]. apply andb_prop in S as [S C]. apply andb_prop in S as [A B].
  apply Z.eqb_eq in A. apply Z.leb_le in B, C, D, E. lia.
Qed.

(* the other direction: every valid civil date is the date of its own day number *)
Definition valid_civil (y m d : Z) : Prop := 1 <= m <= 12 /\ 1 <= d <= month_len y m.

(* ---- the year representation (sc.datetoyear) is strictly increasing from each day to the next, for every day *)
Lemma year_of_ord_shift o k : year_of_ord (o + k * 146097) = year_of_ord o + 400 * k.
Proof.
  unfold year_of_ord, civil_of_ord. replace (o + k * 146097 - ord_epoch) with (o - ord_epoch + k * 146097) by ring.
  rewrite cfd_shift. destruct (civil_from_days (o - ord_epoch)) as [[y m] d]. reflexivity.
Qed.
Lemma ord_of_shift y m d k : ord_of (y + 400 * k) m d = ord_of y m d + k * 146097.
Proof. unfold ord_of. rewrite dfc_shift. ring. Qed.
Lemma year_length_shift y k : year_length (y + 400 * k) = year_length y.
Proof. unfold year_length. now rewrite is_leap_shift. Qed.

Lemma date_to_year_shift o k : (date_to_year (o + k * 146097) == date_to_year o + inject_Z (400 * k))%Q.
Proof.
  unfold date_to_year. cbv zeta. rewrite year_of_ord_shift, ord_of_shift, year_length_shift.
  replace (o + k * 146097 - (ord_of (year_of_ord o) 1 1 + k * 146097)) with (o - ord_of (year_of_ord o) 1 1) by ring.
  rewrite inject_Z_plus. ring.
Qed.

Definition year_mono_ok_full (z : Z) : bool := Qltb (date_to_year (z + ord_epoch)) (date_to_year (z + 1 + ord_epoch)).
Lemma era_sweep_year_mono : all_from year_mono_ok_full era_lo (Z.to_nat era_days) = true.
Proof. vm_cast_no_check (eq_refl true). Qed.

Theorem date_to_year_increasing_all z : (date_to_year (z + ord_epoch) < date_to_year (z + 1 + ord_epoch))%Q.
Proof.
  set (k := (z + 719468) / 146097). set (z0 := z - k * 146097).
  assert (Hr : era_lo <= z0 < era_lo + Z.of_nat (Z.to_nat era_days)).
  { unfold z0, k, era_lo, era_days. pose proof (Z.div_mod (z + 719468) 146097 ltac:(lia)). pose proof (Z.mod_pos_bound (z + 719468) 146097 ltac:(lia)). lia. }
  pose proof (all_from_spec _ _ _ era_sweep_year_mono z0 Hr) as S. unfold year_mono_ok_full, Qltb in S.
  assert (L0 : (date_to_year (z0 + ord_epoch) < date_to_year (z0 + 1 + ord_epoch))%Q).
  { destruct (Qle_bool (date_to_year (z0 + 1 + ord_epoch)) (date_to_year (z0 + ord_epoch))) eqn:E; [discriminate|].
    destruct (Qlt_le_dec (date_to_year (z0 + ord_epoch)) (date_to_year (z0 + 1 + ord_epoch))) as [q|q]; [assumption|].
    apply Qle_bool_iff in q. congruence. }
  replace (z + ord_epoch) with (z0 + ord_epoch + k * 146097) by (unfold z0; ring).
  replace (z + 1 + ord_epoch) with (z0 + 1 + ord_epoch + k * 146097) by (unfold z0; ring).
  rewrite !date_to_year_shift. apply Qplus_lt_l. exact L0.
Qed.
