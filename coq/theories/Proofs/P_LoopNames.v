From SS Require Import Model.Prelude Model.L4_LoopBase Gen.Gen_Loop Model.L4_Loop.
From Coq Require Import List QArith Lia Bool.
Import ListNotations.

(* with pairwise distinct names (and ids) the name-keyed lookup is the module's own time vector ... *)
Lemma find_last_named_unique name mods : NoDup (map (fun m => name (m_id m)) mods) ->
  forall m, In m mods -> find_last_named name mods (name (m_id m)) = Some m.
Proof.
  induction mods as [|a t IH]; intros Hnd m Hin; [destruct Hin|].
  cbn [map] in Hnd. apply NoDup_cons_iff in Hnd. destruct Hnd as [Hna Hnd]. cbn [find_last_named].
  destruct Hin as [->|Hin].
  - assert (E : find_last_named name t (name (m_id m)) = None).
    { clear IH Hnd. induction t as [|b t IHt]; [reflexivity|]. cbn [find_last_named]. cbn [map] in Hna.
      rewrite IHt by (intros H; apply Hna; right; exact H).
      destruct (Nat.eqb (name (m_id b)) (name (m_id m))) eqn:Eb; [|reflexivity].
      exfalso. apply Hna. left. apply Nat.eqb_eq in Eb. exact Eb. }
    rewrite E, Nat.eqb_refl. reflexivity.
  - rewrite (IH Hnd m Hin). reflexivity.
Qed.

Lemma owner_tvec_by_name_unique name sim_tvec mods : NoDup (map m_id mods) -> NoDup (map (fun m => name (m_id m)) mods) ->
  forall m, In m mods -> owner_tvec_by_name name sim_tvec mods (OMod (m_id m)) = owner_tvec sim_tvec mods (OMod (m_id m)).
Proof.
  intros Hid Hnm m Hin. unfold owner_tvec_by_name, owner_tvec. rewrite (find_last_named_unique name mods Hnm m Hin).
  assert (F : find_mod mods (m_id m) = Some m).
  { clear Hnm. induction mods as [|a t IH]; [destruct Hin|]. cbn [map] in Hid. apply NoDup_cons_iff in Hid. destruct Hid as [Hna Hid].
    cbn [find_mod]. destruct Hin as [->|Hin]; [now rewrite Nat.eqb_refl|].
    destruct (Nat.eqb (m_id a) (m_id m)) eqn:E; [|exact (IH Hid Hin)].
    exfalso. apply Hna. apply Nat.eqb_eq in E. rewrite E. apply in_map. exact Hin. }
  now rewrite F.
Qed.

(* ... but two modules of different kinds may carry the same name: the earlier one is then scheduled on the later one's time vector *)
Lemma owner_tvec_by_name_refuted : exists name sim_tvec mods m, In m mods /\ NoDup (map m_id mods) /\
  owner_tvec_by_name name sim_tvec mods (OMod (m_id m)) <> owner_tvec sim_tvec mods (OMod (m_id m)).
Proof.
  exists (fun _ => 7%nat), [0; 1]%Q, [mkMod 0 GInterventions false [0; 2]%Q; mkMod 1 GAnalyzers false [0; (1 # 2); 1]%Q], (mkMod 0 GInterventions false [0; 2]%Q).
  split; [left; reflexivity|]. split; [repeat constructor; cbn; intuition lia|]. vm_compute. discriminate.
Qed.

(* Loop.run(until=0): `if until and ...` treats a stop time of 0 as no stop time at all *)
Lemma run_until_zero_is_no_stop now rows : forall c idx, run_until now (Some 0%Q) c rows idx = run_until now None c rows idx.
Proof. induction rows as [|r t IH]; intros c idx; cbn [run_until]; [reflexivity|]. cbn [Qeq_bool Qnum Qden Z.mul Zeq_bool Z.compare negb andb]. apply IH. Qed.
