From SS Require Import Model.Prelude Model.L5_CompartBase Gen.Gen_Compart Model.L5_Compart Gen.Gen_Preg Model.L5_Preg Proofs.P_Compart.
From Coq Require Import String List Bool QArith Qround Lia Lqa ZArith.
Local Open Scope list_scope.
Open Scope string_scope.

(* ---- the flag machine: exhaustive check + soundness *)
Theorem check_preg_sound m : check_preg m = true ->
  forall st cv, map fst st = preg_flags -> map fst cv = dedup_str (sels_of (preg_method_script m)) -> pvalid st = true ->
  exists st', run_script (preg_method_script m) cv st = Some st' /\ pvalid st' = true /\ parrow_ok (pcomp st) (pcomp st') = true.
Proof.
  unfold check_preg. intros H st cv Hst Hcv Hv. rewrite forallb_forall in H.
  specialize (H st (all_vals_complete _ _ Hst)). rewrite Hv in H. cbn [implb] in H. rewrite forallb_forall in H.
  specialize (H cv (all_vals_complete _ _ Hcv)). unfold run_script in *. eexists. split; [reflexivity|]. apply andb_prop in H. exact H.
Qed.
Lemma preg_machines : check_preg "update_states" = true /\ check_preg "set_prognoses" = true /\ check_preg "finish_step" = true.
Proof. vm_compute. repeat split. Qed.
Lemma conception_needs_fecund_ok : conception_needs_fecund = true.
Proof. vm_compute. reflexivity. Qed.
Theorem conception_of_postpartum_breaks st : map fst st = preg_flags -> pvalid st = true -> getv st "postpartum" = true ->
  exists st', run_script (preg_script_gen "set_prognoses") [("uids", true)] st = Some st' /\ pvalid st' = false.
Proof.
  intros Hst Hv Hf. pose proof conception_needs_fecund_ok as H. unfold conception_needs_fecund in H. rewrite forallb_forall in H.
  specialize (H st (all_vals_complete _ _ Hst)). rewrite Hv, Hf in H. cbn [andb implb] in H.
  unfold run_script in *. eexists. split; [reflexivity|]. apply negb_true_iff in H. exact H.
Qed.

(* ---- schedules *)
Local Open Scope Z_scope.
Lemma Qceiling_le_iff d (n : Z) : (Qceiling d <= n)%Z <-> (d <= inject_Z n)%Q.
Proof.
  split; intros H.
  - eapply Qle_trans; [apply Qle_ceiling|]. rewrite <- Zle_Qle. exact H.
  - replace n with (Qceiling (inject_Z n)) by apply Qceiling_Z. apply Qceiling_resp_le. exact H.
Qed.
(* the delivery test first succeeds at conception step + gestation rounded UP to a whole number of steps *)
Theorem delivery_at_ceiling t0 d t : delivery_due (ti_delivery_gen (inject_Z t0) d) t = true <-> delivery_step t0 d <= t.
Proof.
  unfold delivery_due, ti_delivery_gen, delivery_step, Qleb. rewrite Qle_bool_iff.
  assert (E : (inject_Z t0 + d <= inject_Z t)%Q <-> (d <= inject_Z (t - t0))%Q).
  { unfold Z.sub. rewrite inject_Z_plus, inject_Z_opp. split; intros H; lra. }
  rewrite E, <- Qceiling_le_iff. lia.
Qed.
Corollary not_delivered_before t0 d t : t < delivery_step t0 d -> delivery_due (ti_delivery_gen (inject_Z t0) d) t = false.
Proof. intros H. destruct (delivery_due _ _) eqn:E; [|reflexivity]. apply delivery_at_ceiling in E. lia. Qed.

(* prenatal edge: kept by end_pairs, and active, exactly while the delivery test fails (both endpoints alive) *)
Theorem prenatal_edge_iff_pregnant t0 d t :
  edge_keep_gen (edge_end_gen (inject_Z t0) d) (inject_Z t) true true = negb (delivery_due (ti_delivery_gen (inject_Z t0) d) t) /\
  edge_inactive_gen (edge_end_gen (inject_Z t0) d) (inject_Z t) = delivery_due (ti_delivery_gen (inject_Z t0) d) t.
Proof.
  unfold edge_keep_gen, edge_end_gen, edge_inactive_gen, delivery_due, ti_delivery_gen, Qgtb, Qleb. rewrite !andb_true_r. split; reflexivity.
Qed.
Theorem dead_endpoint_ends_edge e t a b : (a = false \/ b = false) -> edge_keep_gen e t a b = false.
Proof. unfold edge_keep_gen. intros [->| ->]; rewrite ?andb_false_r; reflexivity. Qed.

(* postnatal edge created at the delivery step with the stored post-partum duration: it outlives the post-partum period by less than one step *)
Theorem postnatal_outlives_by_less_than_a_step t0 d dpp :
  let s := delivery_step t0 d in
  let e := edge_end_gen (inject_Z s) dpp in
  let tpp := ti_postpartum_gen (ti_delivery_gen (inject_Z t0) d) dpp in
  (0 <= e - tpp)%Q /\ (e - tpp < 1)%Q.
Proof.
  cbn zeta. unfold edge_end_gen, ti_postpartum_gen, ti_delivery_gen, delivery_step. rewrite inject_Z_plus.
  pose proof (Qle_ceiling d) as H1. pose proof (Qceiling_lt d) as H2. unfold Z.sub in H2. rewrite inject_Z_plus, inject_Z_opp in H2. change (inject_Z 1) with 1%Q in H2.
  set (c := inject_Z (Qceiling d)) in *. set (a := inject_Z t0). split; lra.
Qed.

(* age of the child at the delivery step, when gestation lasts d = gest_years / dt_year steps: in [0, dt_year) -- newborns enter at age zero *)
Theorem age_at_delivery g dty (t0 : Z) : (0 < dty)%Q -> 0 <= t0 ->
  let k := Qceiling (g / dty) in
  (0 <= child_age g t0 dty k)%Q /\ (child_age g t0 dty k < dty)%Q.
Proof.
  intros Hd Ht. cbn zeta. unfold child_age, embryo_age_gen, Qltb.
  assert (E : Qle_bool 0 (inject_Z t0) = true) by (apply Qle_bool_iff; change 0%Q with (inject_Z 0); rewrite <- Zle_Qle; exact Ht). rewrite E. cbn [negb].
  pose proof (Qle_ceiling (g / dty)) as H1. pose proof (Qceiling_lt (g / dty)) as H2.
  unfold Z.sub in H2. rewrite inject_Z_plus, inject_Z_opp in H2. change (inject_Z 1) with 1%Q in H2.
  set (c := inject_Z (Qceiling (g / dty))) in *.
  assert (Hg : (g == (g / dty) * dty)%Q) by (field; intros Z0; rewrite Z0 in Hd; apply (Qlt_irrefl 0); exact Hd).
  assert (M1 : ((g / dty) * dty <= c * dty)%Q) by (apply Qmult_le_compat_r; [exact H1|apply Qlt_le_weak; exact Hd]).
  assert (M2 : ((c + - (1)) * dty < (g / dty) * dty)%Q) by (apply Qmult_lt_compat_r; [exact Hd|exact H2]).
  assert (R : ((c + - (1)) * dty == c * dty - dty)%Q) by ring. rewrite R in M2. rewrite <- Hg in M1, M2.
  set (x := (c * dty)%Q) in *. split; lra.
Qed.
(* burn-in: a child conceived at step ti < 0 is aged to step 0 at once; k steps after step 0 its age is the same as if it had aged ti + k steps *)
Theorem burnin_age g dty (ti k : Z) : ti < 0 ->
  (child_age g ti dty k == - g + inject_Z (k - ti) * dty)%Q.
Proof.
  intros H. unfold child_age, embryo_age_gen, Qltb.
  assert (E : Qle_bool 0 (inject_Z ti) = false).
  { destruct (Qle_bool 0 (inject_Z ti)) eqn:B; [|reflexivity]. apply Qle_bool_iff in B. change 0%Q with (inject_Z 0) in B. rewrite <- Zle_Qle in B. lia. }
  rewrite E. cbn [negb]. unfold Z.sub. rewrite inject_Z_plus, inject_Z_opp. ring.
Qed.

(* ---- links *)
Lemma upd_many_other f ks : forall vs x, ~ In x ks -> upd_many f ks vs x = f x.
Proof.
  revert f. induction ks as [|k t IH]; intros f [|v vs] x H; cbn [upd_many]; try reflexivity.
  rewrite IH by (intros C; apply H; right; exact C). destruct (Nat.eqb_spec x k) as [->|N]; [exfalso; apply H; left; reflexivity|reflexivity].
Qed.
Lemma upd_many_nth f ks : forall vs i k v, NoDup ks -> nth_error ks i = Some k -> nth_error vs i = Some v -> upd_many f ks vs k = Some v.
Proof.
  revert f. induction ks as [|k0 t IH]; intros f vs i k v ND Hk Hv; [destruct i; discriminate|].
  destruct vs as [|v0 vs]; [destruct i; discriminate|]. inversion ND as [|? ? Hn ND']; subst. cbn [upd_many].
  destruct i as [|i]; cbn [nth_error] in Hk, Hv.
  - injection Hk as <-. injection Hv as <-. rewrite upd_many_other by exact Hn. rewrite Nat.eqb_refl. reflexivity.
  - eapply IH; eassumption.
Qed.
(* every embryo gets exactly the woman who conceived it as parent, she gets it as child, and nobody else's links change *)
Theorem links_agree parent child mothers news : NoDup mothers -> NoDup news -> length mothers = length news ->
  let '(parent', child') := set_links parent child mothers news in
  (forall i m c, nth_error mothers i = Some m -> nth_error news i = Some c -> parent' c = Some m /\ child' m = Some c) /\
  (forall x, ~ In x news -> parent' x = parent x) /\ (forall x, ~ In x mothers -> child' x = child x).
Proof.
  intros N1 N2 L. unfold set_links. split; [|split].
  - intros i m c Hm Hc. split; eapply upd_many_nth; eassumption.
  - intros x H. apply upd_many_other. exact H.
  - intros x H. apply upd_many_other. exact H.
Qed.
