From SS Require Import Model.Prelude Gen.Gen_Dist Gen.Gen_Sim Model.L6_Sim.
From Coq Require Import String List Permutation Sorting.Sorted Lia Lqa QArith ZArith Qround.
Local Open Scope list_scope.

Section Machine.
  Variables shared mstate draws gstate : Type.
  Variable stream : Z -> nat -> nat -> draws.
  Variable offset : string -> Z.
  Notation comp := (comp shared mstate draws gstate).
  Notation step_all := (step_all shared mstate draws gstate stream offset).
  Notation run := (run shared mstate draws gstate stream offset).
  Notation ignores_global := (ignores_global shared mstate draws gstate).
  Notation sampling_only := (sampling_only shared mstate draws gstate).
  Notation independent := (independent shared mstate draws gstate).

  (* ---- C01: components that never read the process-wide generator make the run independent of its state and of anything done to it *)
  Lemma step_all_ignores_global base ti cs : Forall ignores_global cs -> forall ms s g g',
    fst (step_all base ti cs ms s g) = fst (step_all base ti cs ms s g').
  Proof.
    induction cs as [|c cs IH]; intros HF ms s g g'; [reflexivity|]. inversion HF as [|? ? Hc HF']; subst.
    destruct ms as [|m ms]; [reflexivity|]. cbn [L6_Sim.step_all].
    pose proof (Hc (own_draws shared mstate draws gstate stream offset base c ti) ti m s g g') as E.
    destruct (cstep _ _ _ _ c _ ti m s g) as [[m1 s1] g1]. destruct (cstep _ _ _ _ c _ ti m s g') as [[m1' s1'] g1']. cbn [fst] in E. injection E as <- <-.
    pose proof (IH HF' ms s1 g1 g1') as E2.
    destruct (step_all base ti cs ms s1 g1) as [[ms2 s2] g2]. destruct (step_all base ti cs ms s1 g1') as [[ms2' s2'] g2']. cbn [fst] in *. injection E2 as <- <-. reflexivity.
  Qed.
  Theorem run_ignores_global base cs : Forall ignores_global cs -> forall n ti ms s g g' perturb perturb',
    fst (run base perturb cs n ti ms s g) = fst (run base perturb' cs n ti ms s g').
  Proof.
    intros HF. induction n as [|n IH]; intros ti ms s g g' p p'; [reflexivity|]. cbn [L6_Sim.run].
    pose proof (step_all_ignores_global base ti cs HF ms s (p ti g) (p' ti g')) as E.
    destruct (step_all base ti cs ms s (p ti g)) as [[ms1 s1] g1]. destruct (step_all base ti cs ms s (p' ti g')) as [[ms1' s1'] g1']. cbn [fst] in E. injection E as <- <-.
    apply IH.
  Qed.
  (* another simulation created and stepped in between, in any interleaving, and whatever it does to the process-wide generator, leaves the
     first simulation exactly where its standalone run puts it *)
  Theorem interleaving_is_invisible baseA baseB csA csB : Forall ignores_global csA -> forall sched tiA msA sA tiB msB sB g g' perturb,
    interleaved shared mstate draws gstate stream offset baseA baseB csA csB sched tiA msA sA tiB msB sB g =
    fst (run baseA perturb csA (count_occ Bool.bool_dec sched true) tiA msA sA g').
  Proof.
    intros HF. induction sched as [|[|] t IH]; intros tiA msA sA tiB msB sB g g' p; [reflexivity| |].
    - cbn [L6_Sim.interleaved count_occ]. destruct (Bool.bool_dec true true) as [_|N]; [|congruence]. cbn [L6_Sim.run].
      pose proof (step_all_ignores_global baseA tiA csA HF msA sA g (p tiA g')) as E.
      destruct (step_all baseA tiA csA msA sA g) as [[m1 s1] g1]. destruct (step_all baseA tiA csA msA sA (p tiA g')) as [[m1' s1'] g1']. cbn [fst] in E. injection E as <- <-.
      apply IH.
    - cbn [L6_Sim.interleaved count_occ]. destruct (Bool.bool_dec false true) as [N|_]; [discriminate|].
      destruct (step_all baseB tiB csB msB sB g) as [[m1 s1] g1]. apply IH.
  Qed.
  (* the seed of every distribution changes with the base seed *)
  Theorem seed_changes_with_base o b b' : b <> b' -> seed_gen o b <> seed_gen o b'.
  Proof. unfold seed_gen. lia. Qed.

  (* ---- C02: a sampling-only component inserted anywhere leaves every other component and the shared state unchanged *)
  Lemma step_all_ghost base ti c : sampling_only c -> forall i cs ms m s g, List.length ms = List.length cs -> (i <= List.length cs)%nat ->
    exists m', step_all base ti (insert_at i c cs) (insert_at i m ms) s g =
               (let '(ms1, s1, g1) := step_all base ti cs ms s g in (insert_at i m' ms1, s1, g1)).
  Proof.
    intros Hc. induction i as [|i IH]; intros cs ms m s g L Hi.
    - cbn [insert_at L6_Sim.step_all]. destruct (Hc (own_draws shared mstate draws gstate stream offset base c ti) ti m s g) as [A B].
      destruct (cstep _ _ _ _ c _ ti m s g) as [[m1 s1] g1]. cbn [fst snd] in A, B. subst s1 g1. exists m1.
      destruct (step_all base ti cs ms s g) as [[ms2 s2] g2]. reflexivity.
    - destruct cs as [|c0 cs]; [cbn in Hi; lia|]. destruct ms as [|m0 ms]; [discriminate|]. cbn [insert_at L6_Sim.step_all].
      destruct (cstep _ _ _ _ c0 _ ti m0 s g) as [[m1 s1] g1].
      destruct (IH cs ms m s1 g1 ltac:(cbn in L; lia) ltac:(cbn in Hi; lia)) as [m' E]. exists m'. rewrite E.
      destruct (step_all base ti cs ms s1 g1) as [[ms2 s2] g2]. reflexivity.
  Qed.
  Lemma step_all_length base ti cs : forall ms s g, List.length ms = List.length cs -> List.length (fst (fst (step_all base ti cs ms s g))) = List.length cs.
  Proof.
    induction cs as [|c cs IH]; intros ms s g L; [reflexivity|]. destruct ms as [|m ms]; [discriminate|]. cbn [L6_Sim.step_all].
    destruct (cstep _ _ _ _ c _ ti m s g) as [[m1 s1] g1]. specialize (IH ms s1 g1 ltac:(cbn in L; lia)).
    destruct (step_all base ti cs ms s1 g1) as [[ms2 s2] g2]. cbn [fst] in *. cbn. lia.
  Qed.
  Theorem ghost_noninterference base perturb c : sampling_only c -> forall n ti i cs ms m s g, List.length ms = List.length cs -> (i <= List.length cs)%nat ->
    exists m', run base perturb (insert_at i c cs) n ti (insert_at i m ms) s g =
               (let '(ms1, s1, g1) := run base perturb cs n ti ms s g in (insert_at i m' ms1, s1, g1)).
  Proof.
    intros Hc. induction n as [|n IH]; intros ti i cs ms m s g L Hi.
    - exists m. reflexivity.
    - cbn [L6_Sim.run]. destruct (step_all_ghost base ti c Hc i cs ms m s (perturb ti g) L Hi) as [m1 E]. rewrite E.
      pose proof (step_all_length base ti cs ms s (perturb ti g) L) as L1.
      destruct (step_all base ti cs ms s (perturb ti g)) as [[ms1 s1] g1]. cbn [fst] in L1.
      destruct (IH (S ti) i cs ms1 m1 s1 g1 L1 Hi) as [m' E2]. exists m'. exact E2.
  Qed.
  Lemma remove_insert {A} i (x : A) l : (i <= List.length l)%nat -> remove_at i (insert_at i x l) = l.
  Proof. revert l. induction i as [|i IH]; intros l H; [reflexivity|]. destruct l as [|h t]; [cbn in H; lia|]. cbn. f_equal. apply IH. cbn in H. lia. Qed.

  (* ---- C02: two adjacent independent components can be listed in either order *)
  Lemma step_all_swap base ti c1 c2 : independent c1 c2 -> forall pre cs mpre m1 m2 ms s g, List.length mpre = List.length pre ->
    step_all base ti (pre ++ c1 :: c2 :: cs) (mpre ++ m1 :: m2 :: ms) s g =
    (let '(r, s', g') := step_all base ti (pre ++ c2 :: c1 :: cs) (mpre ++ m2 :: m1 :: ms) s g in
     (firstn (List.length pre) r ++ nth (S (List.length pre)) r m1 :: nth (List.length pre) r m2 :: skipn (S (S (List.length pre))) r, s', g')).
  Proof.
    intros Hi. induction pre as [|c0 pre IH]; intros cs mpre m1 m2 ms s g L.
    - destruct mpre; [|discriminate]. cbn [app L6_Sim.step_all List.length].
      pose proof (Hi (own_draws shared mstate draws gstate stream offset base c1 ti) (own_draws shared mstate draws gstate stream offset base c2 ti) ti m1 m2 s g) as E.
      destruct (cstep _ _ _ _ c1 _ ti m1 s g) as [[a1 s1] g1]. destruct (cstep _ _ _ _ c2 _ ti m2 s1 g1) as [[a2 s2] g2].
      destruct (cstep _ _ _ _ c2 _ ti m2 s g) as [[b2 t1] h1]. destruct (cstep _ _ _ _ c1 _ ti m1 t1 h1) as [[b1 t2] h2].
      injection E as -> -> -> ->. destruct (step_all base ti cs ms t2 h2) as [[r s'] g']. reflexivity.
    - destruct mpre as [|m0 mpre]; [discriminate|]. cbn [app L6_Sim.step_all].
      destruct (cstep _ _ _ _ c0 _ ti m0 s g) as [[a0 s0] g0]. rewrite (IH cs mpre m1 m2 ms s0 g0) by (cbn in L; lia).
      destruct (step_all base ti (pre ++ c2 :: c1 :: cs) (mpre ++ m2 :: m1 :: ms) s0 g0) as [[r s'] g']. reflexivity.
  Qed.
  Theorem independent_order_irrelevant base ti c1 c2 : independent c1 c2 -> forall pre cs mpre m1 m2 ms s g, List.length mpre = List.length pre ->
    snd (fst (step_all base ti (pre ++ c1 :: c2 :: cs) (mpre ++ m1 :: m2 :: ms) s g)) = snd (fst (step_all base ti (pre ++ c2 :: c1 :: cs) (mpre ++ m2 :: m1 :: ms) s g)).
  Proof.
    intros Hi pre cs mpre m1 m2 ms s g L. rewrite (step_all_swap base ti c1 c2 Hi pre cs mpre m1 m2 ms s g L).
    destruct (step_all base ti (pre ++ c2 :: c1 :: cs) (mpre ++ m2 :: m1 :: ms) s g) as [[r s'] g']. reflexivity.
  Qed.
End Machine.

(* ---- C18 *)
Section Multi.
  Variable result : Type.
  Variable simulate : Z -> result.
  Notation member := (member result simulate).
  Lemma filed_executed base sched i : In i sched -> filed result i (executed result simulate base sched) = Some (member base i).
  Proof.
    induction sched as [|j t IH]; intros H; [destruct H|]. cbn [executed map filed]. destruct (Nat.eqb_spec i j) as [->|N]; [reflexivity|].
    destruct H as [E|H]; [congruence|]. apply IH. exact H.
  Qed.
  (* whatever the order in which the workers execute the replicates, the assembled list is the list of standalone runs with seeds base + i *)
  Theorem schedule_irrelevant base n sched : Permutation sched (seq 0 n) ->
    assembled result n (executed result simulate base sched) = map (fun r => Some r) (serial_runs result simulate base n).
  Proof.
    intros P. unfold assembled, serial_runs. rewrite map_map. apply map_ext_in. intros i Hi. apply filed_executed.
    eapply Permutation_in; [apply Permutation_sym; exact P|exact Hi].
  Qed.
  Theorem member_seed base i : member base i = simulate (base + Z.of_nat i)%Z.
  Proof. reflexivity. Qed.
  (* in-place updating hands the caller's i-th object the state of the standalone run with seed base + i, and leaves it alone when the
     lengths disagree *)
  Section InPlace.
    Variable obj : Type.
    Variable take_over : obj -> result -> obj.
    Theorem in_place_gets_member base n objs i d : List.length objs = n -> (i < n)%nat ->
      nth i (update_in_place result obj take_over objs (serial_runs result simulate base n)) d = take_over (nth i objs d) (member base i).
    Proof.
      intros L Hi. unfold update_in_place, serial_runs. rewrite map_length, seq_length, L, Nat.eqb_refl.
      set (f := fun p : obj * result => take_over (fst p) (snd p)).
      assert (Lc : (i < List.length (combine objs (map (member base) (seq 0 n))))%nat) by (rewrite combine_length, map_length, seq_length, L; lia).
      rewrite (nth_indep _ d (f (d, member base 0%nat))) by (rewrite map_length; exact Lc).
      rewrite (map_nth f). rewrite combine_nth by (rewrite map_length, seq_length; exact L).
      unfold f. cbn [fst snd]. f_equal.
      rewrite (map_nth (member base)). rewrite seq_nth by exact Hi. reflexivity.
    Qed.
    Theorem in_place_preserves_count objs rs : List.length (update_in_place result obj take_over objs rs) = List.length objs.
    Proof.
      unfold update_in_place. destruct (Nat.eqb_spec (List.length rs) (List.length objs)) as [E|N]; [|reflexivity].
      rewrite map_length, combine_length, E. lia.
    Qed.
    Theorem in_place_refused_on_length_mismatch objs rs : List.length rs <> List.length objs -> update_in_place result obj take_over objs rs = objs.
    Proof. intros N. unfold update_in_place. destruct (Nat.eqb_spec (List.length rs) (List.length objs)); [contradiction|reflexivity]. Qed.
  End InPlace.
  Theorem members_have_distinct_seeds base i j : i <> j -> reseed_gen base (Z.of_nat i) <> reseed_gen base (Z.of_nat j).
  Proof. unfold reseed_gen. lia. Qed.
End Multi.

(* reduced statistics are invariant to the order of the members *)
Lemma qsum_perm l l' : Permutation l l' -> (qsum l == qsum l')%Q.
Proof. induction 1; cbn [qsum fold_right]; [reflexivity|rewrite IHPermutation; reflexivity|ring|etransitivity; eassumption]. Qed.
Theorem mean_order_invariant l l' : Permutation l l' -> (qmean_of l == qmean_of l')%Q.
Proof. intros P. unfold qmean_of. rewrite (qsum_perm _ _ P), (Permutation_length P). reflexivity. Qed.
Lemma zinsert_perm x l : Permutation (zinsert x l) (x :: l).
Proof. induction l as [|h t IH]; cbn [zinsert]; [reflexivity|]. destruct (Z.leb x h); [reflexivity|]. rewrite IH. apply perm_swap. Qed.
Lemma zsort_perm l : Permutation (zsort l) l.
Proof. induction l as [|h t IH]; cbn [zsort fold_right]; [constructor|]. fold (zsort t). rewrite zinsert_perm. constructor. exact IH. Qed.
Lemma zinsert_sorted x l : StronglySorted Z.le l -> StronglySorted Z.le (zinsert x l).
Proof.
  induction 1 as [|h t Hs IH Hf]; cbn [zinsert]; [repeat constructor|]. destruct (Z.leb_spec x h).
  - constructor; [constructor; assumption|]. constructor; [assumption|]. eapply Forall_impl; [|exact Hf]. intros; lia.
  - constructor; [exact IH|]. eapply Permutation_Forall; [apply Permutation_sym, zinsert_perm|]. constructor; [lia|exact Hf].
Qed.
Lemma zsort_sorted l : StronglySorted Z.le (zsort l).
Proof. induction l as [|h t IH]; cbn [zsort fold_right]; [constructor|]. apply zinsert_sorted. exact IH. Qed.
Lemma sorted_perm_unique l : forall l', StronglySorted Z.le l -> StronglySorted Z.le l' -> Permutation l l' -> l = l'.
Proof.
  induction l as [|h t IH]; intros l' S S' P.
  - apply Permutation_nil in P. subst. reflexivity.
  - destruct l' as [|h' t']; [apply Permutation_sym, Permutation_nil in P; discriminate|].
    inversion S as [|? ? St Ft]; subst. inversion S' as [|? ? St' Ft']; subst.
    assert (h = h').
    { assert (I1 : In h (h' :: t')) by (eapply Permutation_in; [exact P|left; reflexivity]).
      assert (I2 : In h' (h :: t)) by (eapply Permutation_in; [apply Permutation_sym; exact P|left; reflexivity]).
      rewrite Forall_forall in Ft, Ft'. destruct I1 as [->|I1]; [reflexivity|]. destruct I2 as [->|I2]; [reflexivity|].
      specialize (Ft _ I2). specialize (Ft' _ I1). lia. }
    subst h'. f_equal. apply IH; [assumption|assumption|]. eapply Permutation_cons_inv. exact P.
Qed.
Theorem zsort_order_invariant l l' : Permutation l l' -> zsort l = zsort l'.
Proof.
  intros P. apply sorted_perm_unique; [apply zsort_sorted|apply zsort_sorted|].
  rewrite zsort_perm. rewrite P. apply Permutation_sym, zsort_perm.
Qed.
Theorem quantile_order_invariant q l l' : Permutation l l' -> quantile q l = quantile q l'.
Proof. intros P. unfold quantile. rewrite (zsort_order_invariant l l' P). reflexivity. Qed.


Lemma zsort_length l : List.length (zsort l) = List.length l.
Proof. apply Permutation_length, zsort_perm. Qed.
Lemma zsort_bounds L H l : (forall x, In x l -> (L <= x <= H)%Z) -> forall x, In x (zsort l) -> (L <= x <= H)%Z.
Proof. intros B x I. apply B. eapply Permutation_in; [apply zsort_perm|exact I]. Qed.

Lemma convex_between (L H a b f : Q) : L <= a -> a <= H -> L <= b -> b <= H -> 0 <= f -> f <= 1 -> L <= a + f * (b - a) /\ a + f * (b - a) <= H.
Proof. intros. split; nra. Qed.

Lemma Qfloor_frac x : 0 <= x - inject_Z (Qfloor x) /\ x - inject_Z (Qfloor x) < 1.
Proof.
  pose proof (Qfloor_le x) as A. pose proof (Qlt_floor x) as B. rewrite inject_Z_plus in B. change (inject_Z 1) with 1 in B. split; lra.
Qed.

(* the stated statistic lies between the smallest and the largest member *)
Theorem quantile_between q l L H : l <> [] -> 0 <= q -> q <= 1 -> (forall x, In x l -> (L <= x <= H)%Z) ->
  inject_Z L <= quantile q l /\ quantile q l <= inject_Z H.
Proof.
  intros N Q0 Q1 B. unfold quantile. set (s := zsort l). set (n := List.length s).
  assert (Hn : (1 <= n)%nat). { unfold n, s. rewrite zsort_length. destruct l; [congruence|cbn; lia]. }
  assert (Bs : forall x, In x s -> (L <= x <= H)%Z) by (apply zsort_bounds; exact B).
  set (m := inject_Z (Z.of_nat (n - 1))). set (pos := q * m).
  assert (M0 : 0 <= m). { unfold m. change 0 with (inject_Z 0). rewrite <- Zle_Qle. lia. }
  assert (P0 : 0 <= pos) by (unfold pos; nra). assert (P1 : pos <= m) by (unfold pos; nra).
  assert (F0 : (0 <= Qfloor pos)%Z). { change 0%Z with (Qfloor 0). apply Qfloor_resp_le. exact P0. }
  assert (F1 : (Qfloor pos <= Z.of_nat (n - 1))%Z). { rewrite <- (Qfloor_Z (Z.of_nat (n - 1))). apply Qfloor_resp_le. exact P1. }
  set (lo := Qfloor pos) in *.
  assert (Ia : In (nth (Z.to_nat lo) s 0%Z) s) by (apply nth_In; fold n; lia).
  set (a := nth (Z.to_nat lo) s 0%Z) in *.
  assert (Ib : (L <= nth (Z.to_nat (lo + 1)) s a <= H)%Z).
  { destruct (Nat.lt_ge_cases (Z.to_nat (lo + 1)) n) as [Lt|Ge]; [apply Bs, nth_In; exact Lt|]. rewrite nth_overflow by (fold n; exact Ge). apply Bs, Ia. }
  set (b := nth (Z.to_nat (lo + 1)) s a) in *. pose proof (Bs _ Ia) as Ba. pose proof (Qfloor_frac pos) as [Fr0 Fr1]. fold lo in Fr0, Fr1.
  assert (E : inject_Z (b - a) == inject_Z b - inject_Z a) by (unfold Z.sub; rewrite inject_Z_plus, inject_Z_opp; ring). rewrite E. apply convex_between; try lra; rewrite <- Zle_Qle; lia.
Qed.

Lemma sorted_nth_le s : StronglySorted Z.le s -> forall i j d, (i <= j < List.length s)%nat -> (nth i s d <= nth j s d)%Z.
Proof.
  induction 1 as [|h t Hs IH Hf]; intros i j d Hij; [cbn in Hij; lia|].
  destruct i as [|i]; destruct j as [|j]; cbn [nth]; [lia| |lia|apply IH; cbn in Hij; lia].
  rewrite Forall_forall in Hf. apply Hf, nth_In. cbn in Hij. lia.
Qed.

(* a larger q never gives a smaller statistic: low <= median <= high *)
Theorem quantile_monotone q q' l : l <> [] -> 0 <= q -> q <= q' -> q' <= 1 -> quantile q l <= quantile q' l.
Proof.
  intros N Q0 Qq Q1. unfold quantile. set (s := zsort l). set (n := List.length s).
  assert (Hn : (1 <= n)%nat). { unfold n, s. rewrite zsort_length. destruct l; [congruence|cbn; lia]. }
  pose proof (zsort_sorted l) as S. fold s in S.
  set (m := inject_Z (Z.of_nat (n - 1))).
  assert (M0 : 0 <= m). { unfold m. change 0 with (inject_Z 0). rewrite <- Zle_Qle. lia. }
  set (pos := q * m). set (pos' := q' * m).
  assert (P0 : 0 <= pos) by (unfold pos; nra). assert (Pp : pos <= pos') by (unfold pos, pos'; nra). assert (P1 : pos' <= m) by (unfold pos'; nra).
  assert (F0 : (0 <= Qfloor pos)%Z). { change 0%Z with (Qfloor 0). apply Qfloor_resp_le. exact P0. }
  assert (Fp : (Qfloor pos <= Qfloor pos')%Z) by (apply Qfloor_resp_le; exact Pp).
  assert (F1 : (Qfloor pos' <= Z.of_nat (n - 1))%Z). { rewrite <- (Qfloor_Z (Z.of_nat (n - 1))). apply Qfloor_resp_le. exact P1. }
  pose proof (Qfloor_frac pos) as [Fr0 Fr1]. pose proof (Qfloor_frac pos') as [Fr0' Fr1'].
  set (k := Qfloor pos) in *. set (k' := Qfloor pos') in *.
  set (a := nth (Z.to_nat k) s 0%Z). set (a' := nth (Z.to_nat k') s 0%Z).
  set (b := nth (Z.to_nat (k + 1)) s a). set (b' := nth (Z.to_nat (k' + 1)) s a').
  assert (AB : forall kk, (0 <= kk <= Z.of_nat (n - 1))%Z -> (nth (Z.to_nat kk) s 0 <= nth (Z.to_nat (kk + 1)) s (nth (Z.to_nat kk) s 0))%Z).
  { intros kk Hk. destruct (Nat.lt_ge_cases (Z.to_nat (kk + 1)) n) as [Lt|Ge].
    - rewrite (nth_indep s (nth (Z.to_nat kk) s 0%Z) 0%Z Lt). apply sorted_nth_le; [exact S|fold n; lia].
    - rewrite (nth_overflow s (nth (Z.to_nat kk) s 0%Z) Ge). lia. }
  assert (Hab : (a <= b)%Z) by (apply AB; lia). assert (Hab' : (a' <= b')%Z) by (apply AB; lia).
  assert (E : forall x y, inject_Z (y - x) == inject_Z y - inject_Z x) by (intros; unfold Z.sub; rewrite inject_Z_plus, inject_Z_opp; ring).
  rewrite !E. rewrite Zle_Qle in Hab, Hab'.
  destruct (Z.eq_dec k k') as [Ek|Nk].
  - assert (Ea : a' = a) by (unfold a, a'; rewrite Ek; reflexivity). assert (Eb : b' = b) by (unfold b, b'; rewrite Ea, Ek; reflexivity).
    rewrite Ea, Eb, <- Ek. nra.
  - assert (Lt : (k + 1 <= k')%Z) by lia.
    assert (Hba : (b <= a')%Z).
    { unfold b. rewrite (nth_indep s a 0%Z) by (fold n; lia). apply sorted_nth_le; [exact S|fold n; lia]. }
    rewrite Zle_Qle in Hba. nra.
Qed.

Lemma sorted_hd_min s : StronglySorted Z.le s -> forall x, In x s -> (nth 0 s 0 <= x)%Z.
Proof. intros S x I. destruct (In_nth s x 0%Z I) as [i [Hi <-]]. apply sorted_nth_le; [exact S|lia]. Qed.
Lemma sorted_last_max s : StronglySorted Z.le s -> forall x, In x s -> (x <= nth (List.length s - 1) s 0)%Z.
Proof. intros S x I. destruct (In_nth s x 0%Z I) as [i [Hi <-]]. apply sorted_nth_le; [exact S|lia]. Qed.

(* the 0- and 1-quantiles are the smallest and the largest member *)
Theorem quantile_zero_is_min l : l <> [] -> exists m, In m l /\ (forall x, In x l -> (m <= x)%Z) /\ quantile 0 l == inject_Z m.
Proof.
  intros N. set (s := zsort l). assert (Hn : (1 <= List.length s)%nat). { unfold s. rewrite zsort_length. destruct l; [congruence|cbn; lia]. }
  exists (nth 0 s 0%Z). split; [|split].
  - eapply Permutation_in; [apply zsort_perm|]. apply nth_In. exact Hn.
  - intros x I. apply sorted_hd_min; [apply zsort_sorted|]. eapply Permutation_in; [apply Permutation_sym, zsort_perm|exact I].
  - unfold quantile. fold s. cbv zeta. set (pos := 0 * inject_Z (Z.of_nat (List.length s - 1))).
    assert (Hp : pos == 0) by (unfold pos; ring). assert (Hf : Qfloor pos = 0%Z) by (rewrite Hp; reflexivity).
    rewrite Hf. cbn [Z.to_nat]. rewrite Hp. change (inject_Z 0) with 0. ring.
Qed.
Theorem quantile_one_is_max l : l <> [] -> exists m, In m l /\ (forall x, In x l -> (x <= m)%Z) /\ quantile 1 l == inject_Z m.
Proof.
  intros N. set (s := zsort l). assert (Hn : (1 <= List.length s)%nat). { unfold s. rewrite zsort_length. destruct l; [congruence|cbn; lia]. }
  exists (nth (List.length s - 1) s 0%Z). split; [|split].
  - eapply Permutation_in; [apply zsort_perm|]. apply nth_In. fold s. lia.
  - intros x I. apply sorted_last_max; [apply zsort_sorted|]. eapply Permutation_in; [apply Permutation_sym, zsort_perm|exact I].
  - unfold quantile. fold s. cbv zeta. set (pos := 1 * inject_Z (Z.of_nat (List.length s - 1))).
    assert (Hp : pos == inject_Z (Z.of_nat (List.length s - 1))) by (unfold pos; ring).
    assert (Hf : Qfloor pos = Z.of_nat (List.length s - 1)) by (rewrite Hp; apply Qfloor_Z).
    rewrite Hf, Nat2Z.id, Hp. ring.
Qed.

(* the mean lies between the smallest and the largest member *)
Lemma qsum_between (L H : Q) l : (forall x, In x l -> L <= x /\ x <= H) ->
  inject_Z (Z.of_nat (List.length l)) * L <= qsum l /\ qsum l <= inject_Z (Z.of_nat (List.length l)) * H.
Proof.
  induction l as [|h t IH]; intros B; [cbn [qsum fold_right List.length]; change (inject_Z (Z.of_nat 0)) with 0; split; lra|]. cbn [qsum fold_right List.length]. fold (qsum t).
  rewrite Nat2Z.inj_succ. unfold Z.succ. rewrite inject_Z_plus. change (inject_Z 1) with 1.
  destruct (B h (or_introl eq_refl)). destruct IH as [I1 I2]; [intros x I; apply B; right; exact I|]. split; lra.
Qed.
Theorem mean_between (L H : Q) l : l <> [] -> (forall x, In x l -> L <= x /\ x <= H) -> L <= qmean_of l /\ qmean_of l <= H.
Proof.
  intros N B. unfold qmean_of. destruct (qsum_between L H l B) as [I1 I2]. set (n := inject_Z (Z.of_nat (List.length l))) in *.
  assert (Hn : 0 < n). { unfold n. change 0 with (inject_Z 0). rewrite <- Zlt_Qlt. destruct l; [congruence|cbn [List.length]; lia]. }
  split.
  - apply Qle_shift_div_l; [exact Hn|lra].
  - apply Qle_shift_div_r; [exact Hn|lra].
Qed.

(* the variance (np.std squared) does not depend on the order of the members either *)
Lemma qsum_map_ext (f g : Q -> Q) l : (forall x, f x == g x) -> qsum (map f l) == qsum (map g l).
Proof. intros E. induction l as [|h t IH]; cbn [map qsum fold_right]; [reflexivity|]. fold (qsum (map f t)). fold (qsum (map g t)). rewrite IH, E. reflexivity. Qed.
Theorem variance_order_invariant l l' : Permutation l l' -> qvar_of l == qvar_of l'.
Proof.
  intros P. unfold qvar_of. pose proof (mean_order_invariant l l' P) as M.
  set (f := fun x : Q => ((x - qmean_of l) * (x - qmean_of l))%Q). set (g := fun x : Q => ((x - qmean_of l') * (x - qmean_of l'))%Q).
  assert (S : (qsum (map f l) == qsum (map g l'))%Q).
  { rewrite (qsum_perm _ _ (Permutation_map f P)). apply qsum_map_ext. intros x. unfold f, g. rewrite M. reflexivity. }
  unfold qmean_of. rewrite !map_length, (Permutation_length P), S. reflexivity.
Qed.

(* a reduced statistic written into an integer-typed series is no longer the stated statistic (listed finding integer-pop-scale-truncates-reduced-statistic) *)
Lemma integer_series_truncates_the_mean : ~ (stored_in_integer_series (qmean_of [10; 5; 8; 8]) == qmean_of [10; 5; 8; 8])%Q /\ (stored_in_integer_series (qmean_of [10; 5; 8; 8]) == 7)%Q.
Proof. split; vm_compute; [discriminate|reflexivity]. Qed.
Lemma integer_series_keeps_whole_statistics z : (stored_in_integer_series (inject_Z z) == inject_Z z)%Q.
Proof. unfold stored_in_integer_series. rewrite Qfloor_Z. reflexivity. Qed.

(* ---- C02: a sufficient condition for independence that can be read off two components: disjoint footprints (Bernstein's conditions).
   The shared state is a family of named arrays; a component has a read set R and a write set W. *)
Section Footprints.
  Variables V mstate draws gstate : Type.
  Notation shared := (string -> V).
  Notation comp := (comp shared mstate draws gstate).
  Definition mst (r : mstate * shared * gstate) : mstate := fst (fst r).
  Definition shr (r : mstate * shared * gstate) : shared := snd (fst r).
  Definition gst (r : mstate * shared * gstate) : gstate := snd r.
  Definition footprint (c : comp) (R W : string -> bool) : Prop :=
    (forall d ti m s g k, W k = false -> shr (cstep _ _ _ _ c d ti m s g) k = s k) /\
    (forall d ti m s s' g, (forall k, R k = true -> s k = s' k) ->
        mst (cstep _ _ _ _ c d ti m s g) = mst (cstep _ _ _ _ c d ti m s' g) /\
        forall k, W k = true -> shr (cstep _ _ _ _ c d ti m s g) k = shr (cstep _ _ _ _ c d ti m s' g) k) /\
    (forall d ti m s g, gst (cstep _ _ _ _ c d ti m s g) = g).
  Theorem disjoint_footprints_commute (c1 c2 : comp) R1 W1 R2 W2 :
    footprint c1 R1 W1 -> footprint c2 R2 W2 ->
    (forall k, W1 k = true -> W2 k = false /\ R2 k = false) -> (forall k, W2 k = true -> R1 k = false) ->
    forall d1 d2 ti m1 m2 s g,
      let r1 := cstep _ _ _ _ c1 d1 ti m1 s g in let r12 := cstep _ _ _ _ c2 d2 ti m2 (shr r1) (gst r1) in
      let q2 := cstep _ _ _ _ c2 d2 ti m2 s g in let q21 := cstep _ _ _ _ c1 d1 ti m1 (shr q2) (gst q2) in
      mst r1 = mst q21 /\ mst r12 = mst q2 /\ (forall k, shr r12 k = shr q21 k) /\ gst r12 = gst q21.
  Proof.
    intros (Wr1 & Rd1 & G1) (Wr2 & Rd2 & G2) D12 D21 d1 d2 ti m1 m2 s g. cbn zeta.
    set (r1 := cstep _ _ _ _ c1 d1 ti m1 s g). set (q2 := cstep _ _ _ _ c2 d2 ti m2 s g).
    assert (Gr1 : gst r1 = g) by apply G1. assert (Gq2 : gst q2 = g) by apply G2. rewrite Gr1, Gq2.
    (* c2 sees the same read set after c1 *)
    assert (A2 : forall k, R2 k = true -> shr r1 k = s k).
    { intros k Hk. apply Wr1. destruct (W1 k) eqn:E; [|reflexivity]. destruct (D12 k E) as [_ C]. congruence. }
    assert (A1 : forall k, R1 k = true -> shr q2 k = s k).
    { intros k Hk. apply Wr2. destruct (W2 k) eqn:E; [|reflexivity]. pose proof (D21 k E). congruence. }
    destruct (Rd2 d2 ti m2 (shr r1) s g A2) as [M2 S2]. destruct (Rd1 d1 ti m1 (shr q2) s g A1) as [M1 S1].
    split; [symmetry; exact M1|]. split; [exact M2|]. split; [|rewrite G2, G1; reflexivity].
    intros k. destruct (W1 k) eqn:E1.
    - destruct (D12 k E1) as [E2 _]. rewrite (Wr2 d2 ti m2 (shr r1) g k E2). rewrite (S1 k E1). reflexivity.
    - rewrite (Wr1 d1 ti m1 (shr q2) g k E1). destruct (W2 k) eqn:E2.
      + apply S2. exact E2.
      + rewrite (Wr2 d2 ti m2 (shr r1) g k E2). transitivity (s k); [apply Wr1; exact E1|symmetry; apply Wr2; exact E2].
  Qed.
End Footprints.

(* ---- naming: paths enumerated later never rename an object reached earlier; paths enumerated EARLIER do, exactly when they reach it *)
Lemma find_app_l {A} (f : A -> bool) l l' x : find f l = Some x -> find f (l ++ l') = Some x.
Proof. induction l as [|a l IH]; cbn; [discriminate|]. destruct (f a); [tauto|exact IH]. Qed.
Lemma find_app_none {A} (f : A -> bool) l l' : find f l = None -> find f (l ++ l') = find f l'.
Proof. induction l as [|a l IH]; cbn; [reflexivity|]. destruct (f a); [discriminate|exact IH]. Qed.

Lemma name_of_later_paths i l l' : In i (map snd l) -> name_of i (l ++ l') = name_of i l.
Proof.
  intros Hin. unfold name_of. destruct (find (fun x => Nat.eqb (snd x) i) l) as [x|] eqn:E.
  - now rewrite (find_app_l _ _ _ _ E).
  - exfalso. apply in_map_iff in Hin. destruct Hin as [[p j] [Hj Hx]]. cbn in Hj. subst j.
    pose proof (find_none _ _ E _ Hx) as F. cbn in F. rewrite Nat.eqb_refl in F. discriminate.
Qed.

Lemma name_of_earlier_unrelated_paths i l l' : ~ In i (map snd l') -> name_of i (l' ++ l) = name_of i l.
Proof.
  intros Hn. unfold name_of. rewrite find_app_none; [reflexivity|].
  destruct (find (fun x => Nat.eqb (snd x) i) l') as [[p j]|] eqn:E; [|reflexivity].
  exfalso. apply find_some in E. destruct E as [Hx Hj]. cbn in Hj. apply Nat.eqb_eq in Hj. subst j.
  apply Hn. apply in_map_iff. exists (p, i). split; [reflexivity|exact Hx].
Qed.

Lemma name_of_earlier_reference_renames : exists l l' i, In i (map snd l) /\ name_of i (l' ++ l) <> name_of i l.
Proof.
  exists [("interventions_vx_coverage_dist"%string, 7%nat)], [("interventions_holder_watched_coverage_dist"%string, 7%nat)], 7%nat.
  split; [left; reflexivity|]. cbv. discriminate.
Qed.
