(* L2: user-level operations on agent arrays living in a People (executable; used by the C10/C11 correspondence). *)
From SS Require Import Model.Prelude Gen.Gen_Arr Model.L2_People.

Definition set_other (p : ppl) (k : nat) (a : arr) : ppl :=
  mkPpl (auids p) (uidarr p) (slotarr p) (parent p) (alive p) (ti_dead p) (set_nth (others p) k a) (ti p).
Definition other (p : ppl) (k : nat) : arr := nth k (others p) (mkArr [] 0 None 0).

Definition slice {A} (l : list A) (lo hi : nat) : list A := firstn (hi - lo) (skipn lo l).

Inductive akey := KUids (us : list nat) | KBoolOf (kb : nat) | KSlice (lo hi : nat) | KEmpty.

(* _convert_key: the raw indices a key denotes (None: a garbage cell would decide) *)
Definition key_uids (p : ppl) (k : akey) : option (list nat) :=
  match k with
  | KUids us => Some us
  | KBoolOf kb => true_uids (other p kb) (auids p)
  | KSlice lo hi => Some (slice (auids p) lo hi)
  | KEmpty => Some []
  end.

Inductive aop :=
| ASet (k : nat) (key : akey) (v : Q)          (* arr[key] = v *)
| ASetMany (k : nat) (us : list nat) (vs : list Q)
| AGet (k : nat) (key : akey)                  (* arr[key] *)
| AGetInt (k : nat) (i : nat)                  (* arr[int]  (raw index) *)
| AValues (k : nat)                            (* arr.values *)
| ACmp (k : nat) (o : cmp) (c : Q)             (* (arr <op> c).uids *)
| ACmpStore (k : nat) (o : cmp) (c : Q) (dst : nat)   (* others[dst] = (arr <op> c) as a BoolArr *)
| ALogic (ka kb : nat) (o : lop)               (* (a <op> b).uids *)
| ANot (k : nat)                               (* (~a).uids *)
| ATrue (k : nat) | AFalse (k : nat)
| ASum (k : nat) | ACount (k : nat)
| APeople (o : pop).                           (* grow / deaths / removal / tick on the People *)

Inductive aout := OCells (l : list cell) | OUids (l : option (list nat)) | ONum (q : Q) | ONone.

Definition cells_sum (l : list cell) : Q := fold_left (fun acc c => acc + cell_q c) l 0.
Definition cells_count (l : list cell) : nat := length (filter qtrue l).

Definition astep (p : ppl) (o : aop) : ppl * aout :=
  match o with
  | ASet k key v =>
      match key_uids p key with
      | Some us => let a := other p k in (set_other p k (upd_raw a (set_const (raw a) us v) (used a)), ONone)
      | None => (p, ONone) end
  | ASetMany k us vs => let a := other p k in (set_other p k (upd_raw a (set_many (raw a) us vs) (used a)), ONone)
  | AGet k key => match key_uids p key with
                  | Some us => (p, OCells (map (get_raw (raw (other p k))) us))
                  | None => (p, ONone) end
  | AGetInt k i => (p, OCells [get_raw (raw (other p k)) i])
  | AValues k => (p, OCells (arr_values (other p k) (auids p)))
  | ACmp k o c => (p, OUids (true_uids (arr_cmp (other p k) (auids p) o c) (auids p)))
  | ACmpStore k o c dst => (set_other p dst (arr_cmp (other p k) (auids p) o c), ONone)
  | ALogic ka kb o => (p, OUids (true_uids (arr_logic (other p ka) (other p kb) (auids p) o) (auids p)))
  | ANot k => (p, OUids (true_uids (arr_not (other p k) (auids p)) (auids p)))
  | ATrue k => (p, OUids (true_uids (other p k) (auids p)))
  | AFalse k => (p, OUids (false_uids (other p k) (auids p)))
  | ASum k => (p, ONum (cells_sum (arr_values (other p k) (auids p))))
  | ACount k => (p, ONum (inject_Z (Z.of_nat (cells_count (arr_values (other p k) (auids p))))))
  | APeople po => (pstep p po, ONone)
  end.

Fixpoint arun (p : ppl) (ops : list aop) : ppl * list aout :=
  match ops with
  | [] => (p, [])
  | o :: t => let '(p1, out) := astep p o in let '(pf, outs) := arun p1 t in (pf, out :: outs)
  end.

(* comparison helpers for the correspondence *)
Definition cells_eqb (a b : list cell) : bool :=
  (fix go x y := match x, y with [], [] => true | c :: x', d :: y' => andb (cell_eqb c d) (go x' y') | _, _ => false end) a b.
Definition nats_eqb (a b : list nat) : bool :=
  (fix go x y := match x, y with [], [] => true | c :: x', d :: y' => andb (Nat.eqb c d) (go x' y') | _, _ => false end) a b.
Definition aout_eqb (a b : aout) : bool :=
  match a, b with
  | OCells x, OCells y => cells_eqb x y
  | OUids (Some x), OUids (Some y) => nats_eqb x y
  | ONum x, ONum y => Qeq_bool x y
  | ONone, ONone => true
  | _, _ => false
  end.
Fixpoint outs_eqb (a b : list aout) : bool :=
  match a, b with [], [] => true | x :: a', y :: b' => andb (aout_eqb x y) (outs_eqb a' b') | _, _ => false end.

(* snapshot of the bookkeeping: (auids, n_uid, [(used, len_tot, defined prefix of raw)] for alive, ti_dead, others) *)
Definition snap_arr (a : arr) : nat * nat * list cell := (used a, len_tot a, firstn (used a) (raw a)).
Definition snapshot (p : ppl) : list nat * nat * list (nat * nat * list cell) :=
  (auids p, n_uid p, map snap_arr (uidarr p :: slotarr p :: alive p :: ti_dead p :: others p)).
Definition snap_eqb (a b : list nat * nat * list (nat * nat * list cell)) : bool :=
  let '(au, n, arrs) := a in let '(au', n', arrs') := b in
  andb (nats_eqb au au') (andb (Nat.eqb n n')
    ((fix go x y := match x, y with
        | [], [] => true
        | (u, t, c) :: x', (u', t', c') :: y' => andb (Nat.eqb u u') (andb (Nat.eqb t t') (andb (cells_eqb c c') (go x' y')))
        | _, _ => false end) arrs arrs')).
