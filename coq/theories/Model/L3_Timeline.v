(* L3: timelines (ss.Time): numeric / unitless / calendar grids, year and elapsed-time representations,
   placement of module timelines on the sim's elapsed-time axis.  Executable definitions only. *)
From SS Require Import Model.Prelude Model.L3_Units Gen.Gen_Time.
Open Scope Z_scope.

(* ---- proleptic Gregorian calendar (H. Hinnant's algorithms), days since 1970-01-01 *)
Definition days_from_civil (y m d : Z) : Z :=
  let y' := if m <=? 2 then y - 1 else y in
  let era := y' / 400 in
  let yoe := y' - era * 400 in
  let doy := (153 * (if 2 <? m then m - 3 else m + 9) + 2) / 5 + d - 1 in
  let doe := yoe * 365 + yoe / 4 - yoe / 100 + doy in
  era * 146097 + doe - 719468.

Definition civil_from_days (z0 : Z) : Z * Z * Z :=
  let z := z0 + 719468 in
  let era := z / 146097 in
  let doe := z - era * 146097 in
  let yoe := (doe - doe / 1460 + doe / 36524 - doe / 146096) / 365 in
  let y := yoe + era * 400 in
  let doy := doe - (365 * yoe + yoe / 4 - yoe / 100) in
  let mp := (5 * doy + 2) / 153 in
  let d := doy - (153 * mp + 2) / 5 + 1 in
  let m := if mp <? 10 then mp + 3 else mp - 9 in
  (if m <=? 2 then y + 1 else y, m, d).

Definition is_leap (y : Z) : bool := andb (y mod 4 =? 0) (orb (negb (y mod 100 =? 0)) (y mod 400 =? 0)).
Definition year_length (y : Z) : Z := if is_leap y then 366 else 365.
Definition month_len (y m : Z) : Z :=
  if m =? 2 then (if is_leap y then 29 else 28) else if (m =? 4) || (m =? 6) || (m =? 9) || (m =? 11) then 30 else 31.
Definition ord_epoch : Z := 719163.                    (* python date.toordinal() of 1970-01-01 *)
Definition ord_of (y m d : Z) : Z := days_from_civil y m d + ord_epoch.
Definition civil_of_ord (o : Z) : Z * Z * Z := civil_from_days (o - ord_epoch).
Definition year_of_ord (o : Z) : Z := fst (fst (civil_of_ord o)).

(* round_tvec: np.round(x, 6) *)
Definition round6 (q : Q) : Q := inject_Z (round_half_even (q * 1000000)) / 1000000.

(* sc.datetoyear: year + (days since Jan 1) / year length, then rounded to 6 decimals by dates_to_years *)
Definition date_to_year (o : Z) : Q :=
  let y := year_of_ord o in inject_Z y + inject_Z (o - ord_of y 1 1) / inject_Z (year_length y).
(* sc.yeartodate: Jan 1 of int(year) plus round(remainder * year length) days *)
Definition year_to_date (yr : Q) : Z :=
  let y := Qfloor yr in ord_of y 1 1 + round_half_even ((yr - inject_Z y) * inject_Z (year_length y)).

(* ---- grids *)
(* sc.inclusiverange(start, stop, dt): start + i*dt for i = 0 .. int((stop-start)/dt) *)
Definition n_steps (start stop dt : Q) : Z := Qtrunc ((stop - start) / dt).
Definition grid (start dt : Q) (n : Z) : list Q := map (fun i => start + inject_Z (Z.of_nat i) * dt)%Q (seq 0 (Z.to_nat (n + 1))).
Definition incl_range (start stop dt : Q) : list Q := grid start dt (n_steps start stop dt).

Definition unit_q (u : unit_t) : Q := match time_units_gen u with Some q => q | None => 1 end.

Record timeline := mkTL { tl_npts : nat; tl_time : list Q; tl_year : list Q; tl_tvec : list Q; tl_dates : list Z }.

Definition tvec_of (n : nat) (dt : Q) : list Q := map (fun i => round6 (inject_Z (Z.of_nat i) * dt))%Q (seq 0 n).

(* numeric start (a plain number; dates are derived).  offset: start == 0 is interpreted as year 2000 *)
Definition numeric_timeline (u : unit_t) (start stop dt : Q) : timeline :=
  let date_unit := if has_units u then u else UYear in
  let ratio := (unit_q date_unit / unit_q UYear)%Q in
  let offset : Q := if Qeq_bool start 0 then 2000%Q else 0%Q in
  let tv := map round6 (incl_range start stop dt) in
  let t0 := hd 0%Q tv in
  let yv := map (fun t => round6 ((t - t0) * ratio + offset + t0))%Q tv in
  mkTL (length tv) tv yv (tvec_of (length tv) dt) (map year_to_date yv).

(* unitless: the time vector is its own year vector *)
Definition unitless_timeline (start stop dt : Q) : timeline :=
  let tv := map round6 (incl_range start stop dt) in
  mkTL (length tv) tv (map round6 tv) (tvec_of (length tv) dt) [].

(* calendar start with unit day / week: dates every `step` days from start while <= stop *)
Fixpoint date_steps (fuel : nat) (cur stop step : Z) : list Z :=
  match fuel with
  | O => []
  | S f => if cur <=? stop then cur :: date_steps f (cur + step) stop step else []
  end.
Definition day_step (u : unit_t) (dt : Q) : Z :=
  if Qeq_bool (inject_Z (Qtrunc dt)) dt
  then Qtrunc dt * Qtrunc (unit_q u)                  (* integer dt: relativedelta(days/weeks = dt) *)
  else match time_ratio_int_gen u dt UDay 1 with Ok k => k | Err _ => 0 end.
Definition calendar_timeline (u : unit_t) (start stop : Z) (dt : Q) : timeline :=
  let step := day_step u dt in
  let ds := if step <=? 0 then [] else date_steps (Z.to_nat (stop - start + 2)) start stop step in
  let yv := map (fun o => round6 (date_to_year o)) ds in
  mkTL (length ds) (map inject_Z ds) yv (tvec_of (length ds) dt) ds.

(* calendar start with unit year: the year vector is the ground truth *)
Definition year_calendar_timeline (start stop : Z) (dt : Q) : timeline :=
  let yv := map round6 (incl_range (date_to_year start) (date_to_year stop) dt) in
  let ds := map year_to_date yv in
  mkTL (length yv) (map inject_Z ds) yv (tvec_of (length yv) dt) ds.

(* ---- make_abstvec: module timeline on the sim's elapsed-time axis *)
(* both numeric (or both unitless): tvec * ratio(unit -> sim unit) + (start - sim start) *)
Definition abstvec_numeric (m_unit s_unit : unit_t) (m_tvec : list Q) (m_start s_start : Q) : list Q :=
  let ratio := if unit_eqb m_unit s_unit then 1%Q else (unit_q m_unit / unit_q s_unit)%Q in
  map (fun t => round6 (t * ratio + (m_start - s_start)))%Q m_tvec.
(* sim in years (calendar): yearvec - sim.yearvec[0] *)
Definition abstvec_year (m_year : list Q) (s_year0 : Q) : list Q := map (fun y => round6 (y - s_year0))%Q m_year.
(* otherwise: days since the sim start, in sim units *)
Definition abstvec_days (m_dates : list Z) (s_date0 : Z) (s_unit : unit_t) : list Q :=
  map (fun d => round6 (inject_Z (d - s_date0) * (unit_q UDay / unit_q s_unit)))%Q m_dates.
