(* L3: time units.  Executable definitions only. *)
From SS Require Import Model.Prelude.
From Coq Require Import String.

Inductive unit_t := UDay | UWeek | UMonth | UYear | UUnitless | UNone.

Definition unit_eqb (a b : unit_t) : bool :=
  match a, b with
  | UDay, UDay | UWeek, UWeek | UMonth, UMonth | UYear, UYear | UUnitless, UUnitless | UNone, UNone => true
  | _, _ => false
  end.

Definition unit_is_unitless (u : unit_t) : bool := unit_eqb u UUnitless.

Definition has_units (u : unit_t) : bool :=
  match u with UDay | UWeek | UMonth | UYear => true | _ => false end.

(* time_units[u]: KeyError when absent *)
Definition units_lookup (tbl : unit_t -> option Q) (u : unit_t) : res Q :=
  match tbl u with Some q => Ok q | None => Err EKey end.

Fixpoint alias_lookup (tbl : list (string * unit_t)) (s : string) : option unit_t :=
  match tbl with
  | [] => None
  | (k, u) :: t => if String.eqb k s then Some u else alias_lookup t s
  end.
