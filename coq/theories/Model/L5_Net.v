(* L5: contact networks as edge lists -- maintenance operations and the random-network construction.
   Executable definitions only. *)
From SS Require Import Model.Prelude Gen.Gen_Net.

Record dedge := mkDE { d_p1 : nat; d_p2 : nat; d_beta : Q; d_dur : Q }.

Definition memb (x : nat) (l : list nat) : bool := existsb (Nat.eqb x) l.

(* Network.remove_uids: keep = ~(isin(p1, uids) | isin(p2, uids)); every column filtered by the same mask *)
Definition remove_uids (es : list dedge) (us : list nat) : list dedge :=
  filter (fun e => negb (orb (memb (d_p1 e) us) (memb (d_p2 e) us))) es.

(* DynamicNetwork.end_pairs: dur -= dt; keep dur > 0 and both endpoints alive *)
Definition end_pairs (alive : nat -> bool) (dt : Q) (es : list dedge) : list dedge :=
  filter (fun e => andb (dur_keep_gen (d_dur e)) (andb (alive (d_p1 e)) (alive (d_p2 e))))
         (map (fun e => mkDE (d_p1 e) (d_p2 e) (d_beta e) (dur_step_gen (d_dur e) dt)) es).

Definition append_edges (es new : list dedge) : list dedge := es ++ new.

(* RandomNet.get_source: every uid repeated n_contacts times, in order *)
Definition get_source (inds : list nat) (n_contacts : list nat) : list nat :=
  flat_map (fun un => repeat (fst un) (snd un)) (combine inds n_contacts).

(* People.remove_dead on the network side, then on the active list *)
Definition remove_dead_net (es : list dedge) (auids dead : list nat) : list dedge * list nat :=
  (remove_uids es dead, filter (fun u => negb (memb u dead)) auids).

Definition endpoints_in (es : list dedge) (au : list nat) : bool :=
  forallb (fun e => andb (memb (d_p1 e) au) (memb (d_p2 e) au)) es.

(* positional construction used by ErdosRenyiNet (positions in born_uids used as uids) vs the uid-keyed one *)
Definition positional_pairs (born : list nat) (pairs : list (nat * nat)) : list (nat * nat) := pairs.
Definition uid_pairs (born : list nat) (pairs : list (nat * nat)) : list (nat * nat) :=
  map (fun ij => (nth (fst ij) born 0%nat, nth (snd ij) born 0%nat)) pairs.

(* maternal networks: active (beta > 0) while end > ti *)
Definition maternal_active (endt ti : Z) : bool := Z.ltb ti endt.

(* ---- pairwise random numbers of the Erdos-Renyi network (ss.utils.combine_rands): two 64-bit draws a, b are combined into c = (a*b) xor (a-b) in 64-bit
   wrap-around arithmetic and u = c / (2^64 - 1); the pair is an edge iff u <= p.  With UNSIGNED arithmetic c ranges over [0, 2^64); reading the same 64 bits
   as a SIGNED integer gives c - 2^64 for the upper half. *)
Definition two64 : Z := 18446744073709551616.
Definition combine_bits (a b : Z) : Z := Z.lxor ((a * b) mod two64) ((a - b) mod two64).
Definition combine_u64 (a b : Z) : Q := inject_Z (combine_bits a b) / inject_Z (two64 - 1).
Definition as_signed64 (c : Z) : Z := if Z.ltb c (two64 / 2) then c else (c - two64)%Z.
Definition combine_i64 (a b : Z) : Q := inject_Z (as_signed64 (combine_bits a b)) / inject_Z (two64 - 1).
Definition er_edge (u p : Q) : bool := Qle_bool u p.

(* ---- the same count-down in binary64, as DynamicNetwork.end_pairs really performs it: dur = dur - dt on every step, kept while dur > 0 *)
From Coq Require Import PrimFloat.
Fixpoint float_countdown (n : nat) (dur dt : float) : float :=
  match n with O => dur | S k => float_countdown k (PrimFloat.sub dur dt) dt end.
Definition float_edge_kept (n : nat) (dur dt : float) : bool := PrimFloat.ltb PrimFloat.zero (float_countdown n dur dt).
