(* L3: time parameters (ss.dur, ss.rate) on exact rationals -- executable model built on the
   GENERATED definitions of Gen_Time (time_ratio_gen, factor_gen, to_factor_gen, *_values_gen). *)
From SS Require Import Model.Prelude Model.L3_Units Gen.Gen_Time.

Inductive tp_kind := KDur | KRate.

Record timepar := mkTP {
  tp_kind_of : tp_kind; tp_v : Q; tp_unit : unit_t; tp_self_dt : Q;
  tp_parent_unit : unit_t; tp_parent_dt : Q }.

Definition kind_values (k : tp_kind) (v f : Q) : res Q :=
  match k with KDur => dur_values_gen v f | KRate => rate_values_gen v f end.

(* TimePar.init / update_cached: factor then values *)
Definition tp_factor (p : timepar) : res Q :=
  factor_gen (tp_unit p) (tp_self_dt p) (tp_parent_unit p) (tp_parent_dt p).

Definition tp_values (p : timepar) : res Q :=
  bind (tp_factor p) (fun f => kind_values (tp_kind_of p) (tp_v p) f).

(* TimePar.to(unit, dt): unit defaults to parent_unit then unit; dt defaults to 1 *)
Definition first_unit (a b c : unit_t) : unit_t :=
  match a with UNone => (match b with UNone => c | _ => b end) | _ => a end.

Definition tp_to (p : timepar) (u : unit_t) (d : option Q) : res timepar :=
  let u' := first_unit u (tp_parent_unit p) (tp_unit p) in
  let d' := match d with Some x => x | None => 1 end in
  bind (to_factor_gen (tp_unit p) (tp_self_dt p) u' d') (fun f =>
  bind (kind_values (tp_kind_of p) (tp_v p) f) (fun vals =>
  Ok (mkTP (tp_kind_of p) vals u' d' u' d'))).

Definition tp_to_parent (p : timepar) : res timepar :=
  tp_to p (tp_parent_unit p) (Some (tp_parent_dt p)).

(* arithmetic dunders *)
Definition tp_set_v (p : timepar) (v : Q) : timepar :=
  mkTP (tp_kind_of p) v (tp_unit p) (tp_self_dt p) (tp_parent_unit p) (tp_parent_dt p).
Definition tp_mul (p : timepar) (k : Q) := tp_set_v p (tp_v p * k).
Definition tp_div (p : timepar) (k : Q) := tp_set_v p (tp_v p / k).
Definition tp_neg (p : timepar) := tp_set_v p (- tp_v p).
Definition tp_add (p : timepar) (x : Q) : res Q := bind (tp_values p) (fun y => Ok (y + x)).
Definition tp_sub (p : timepar) (x : Q) : res Q := bind (tp_values p) (fun y => Ok (y - x)).

(* physical length of a unit in days *)
Definition unit_days (u : unit_t) : Q := match time_units_gen u with Some q => q | None => 0 end.

(* in-place forms (TimePar.__iadd__ / __isub__): the operand is added to v, in the parameter's OWN unit *)
Definition tp_iadd (p : timepar) (x : Q) := tp_set_v p (tp_v p + x).
Definition tp_isub (p : timepar) (x : Q) := tp_set_v p (tp_v p - x).

(* ---- crude rates reported by the demographics modules (Births.update_results, Deaths.finalize, Pregnancy.finalize): the events counted in one step
   of the module, per person alive, per rate unit, divided by a step length in years: the module's own (own = true) or the sim's.  Which one the
   code uses is the GENERATED crude_rate_divisor_gen (Gen_Demog). *)
Definition crude_rate (count alive rate_units dt_year : Q) : Q := count / alive / (rate_units * dt_year).
Definition crude_rate_reported (own : bool) (count alive rate_units sim_dt_year module_dt_year : Q) : Q :=
  crude_rate count alive rate_units (if own then module_dt_year else sim_dt_year).
