(* constructors shared by the generated dispatch tables of Pars.update (Gen_Pars) and the model (L6_Pars) *)
From SS Require Import Model.Prelude.
Inductive otest := TAtomic | TPars | TNdict | TModule | TTimePar | TDist | TCallable | TDict.
Inductive ntest := NTimePar | NFrame | NNumber | NList | NDict | NDist | NFunc.
Inductive act := ASet | ARecurse | ANdict | AModule | ATimepar | ADist | AWarnSet | ASetArg | ASetStar | ASetKw | AReject | AMakeDist.
Inductive tact := APlain (a : act) | AIfBeta (a b : act).
Inductive dact := DPlain (a : act) | DIfBernMismatch (a b : act) | DIfDurMismatch (a b : act) | DDict (same rej mk : act).
