(* L5: result recording -- counts, prevalence, cumulative series, population scaling.  Executable. *)
From SS Require Import Model.Prelude Gen.Gen_Results.

Definition qsum (l : list Q) : Q := fold_right Qplus 0 l.
(* cumulative series as recorded step by step: cum[ti] = sum(new[:upper ti]) *)
Definition cum_at (upper : nat -> nat) (new : list Q) (ti : nat) : Q := qsum (firstn (upper ti) new).
Definition cum_series (upper : nat -> nat) (new : list Q) : list Q := map (cum_at upper new) (seq 0 (length new)).
Definition running_sum (new : list Q) (ti : nat) : Q := qsum (firstn (S ti) new).

(* counts over the active agents *)
Definition count_state (flag : nat -> bool) (au : list nat) : nat := length (filter flag au).
Definition prevalence (infected alive : nat -> bool) (au : list nat) : Q :=
  prevalence_gen (inject_Z (Z.of_nat (count_state infected au))) (inject_Z (Z.of_nat (count_state alive au))).

(* results and finalisation *)
Record result := mkRes { r_scale : bool; r_vals : list Q }.
Definition scale_result (s : Q) (r : result) : result := if r_scale r then mkRes true (map (Qmult s) (r_vals r)) else r.
Definition finalize_results (s : Q) (rs : list result) : list result := map (scale_result s) rs.
