(* L4: the integration loop -- collection of functions, plan (sorted cross product), execution with clocks.
   Executable definitions only.  Phase list, module chain order, sort key and eps are GENERATED (Gen_Loop). *)
From SS Require Import Model.Prelude Model.L4_LoopBase Gen.Gen_Loop.

Record modl := mkMod { m_id : nat; m_group : group; m_is_disease : bool; m_tvec : list Q }.

Inductive owner := OSim | OPeople | OMod (id : nat).
Definition owner_eqb (a b : owner) : bool :=
  match a, b with OSim, OSim | OPeople, OPeople => true | OMod i, OMod j => Nat.eqb i j | _, _ => false end.

Record func := mkFunc { f_owner : owner; f_meth : method }.

(* sim.modules: groups in chain order, insertion order inside a group *)
Definition chain (mods : list modl) : list modl :=
  flat_map (fun g => filter (fun m => group_eqb (m_group m) g) mods) module_chain_gen.

Definition phase_funcs (mods : list modl) (p : phase) : list func :=
  match p with
  | PSim m => [mkFunc OSim m]
  | PPeople m => [mkFunc OPeople m]
  | PEach GAll m _ => map (fun md => mkFunc (OMod (m_id md)) m) (chain mods)
  | PEach g m od => map (fun md => mkFunc (OMod (m_id md)) m)
                        (filter (fun md => andb (group_eqb (m_group md) g) (orb (negb od) (m_is_disease md))) mods)
  end.

Definition collect (mods : list modl) : list func := flat_map (phase_funcs mods) phases_gen.

Fixpoint find_mod (mods : list modl) (id : nat) : option modl :=
  match mods with [] => None | m :: t => if Nat.eqb (m_id m) id then Some m else find_mod t id end.

Definition owner_tvec (sim_tvec : list Q) (mods : list modl) (o : owner) : list Q :=
  match o with
  | OSim | OPeople => sim_tvec
  | OMod id => match find_mod mods id with Some m => m_tvec m | None => [] end
  end.

Record row := mkRow { r_time : Q; r_order : nat; r_func : func }.

Fixpoint number {A} (i : nat) (l : list A) : list (nat * A) :=
  match l with [] => [] | x :: t => (i, x) :: number (S i) t end.

(* cross product of functions (with their position) and the owner's time points *)
Definition cross (sim_tvec : list Q) (mods : list modl) : list row :=
  flat_map (fun nf => map (fun t => mkRow t (fst nf) (snd nf)) (owner_tvec sim_tvec mods (f_owner (snd nf))))
           (number 0 (collect mods)).

Definition key (r : row) : Q := sort_key_gen (r_time r) time_eps_gen (inject_Z (Z.of_nat (r_order r))).
Definition row_leb (a b : row) : bool := Qle_bool (key a) (key b).

Fixpoint insert (x : row) (l : list row) : list row :=
  match l with [] => [x] | y :: t => if row_leb x y then x :: l else y :: insert x t end.
Fixpoint isort (l : list row) : list row :=
  match l with [] => [] | x :: t => insert x (isort t) end.

Definition plan (sim_tvec : list Q) (mods : list modl) : list row := isort (cross sim_tvec mods).

(* ---- execution: clocks only (what each function does to agents is abstracted) *)
Record clocks := mkClk { c_sim : nat; c_mod : list (nat * nat) }.   (* module id -> ti *)
Fixpoint get_ti (l : list (nat * nat)) (id : nat) : nat :=
  match l with [] => 0 | (i, v) :: t => if Nat.eqb i id then v else get_ti t id end.
Fixpoint bump_ti (l : list (nat * nat)) (id : nat) : list (nat * nat) :=
  match l with [] => [(id, 1%nat)] | (i, v) :: t => if Nat.eqb i id then (i, S v) :: t else (i, v) :: bump_ti t id end.

Definition owner_ti (c : clocks) (o : owner) : nat :=
  match o with OSim | OPeople => c_sim c | OMod id => get_ti (c_mod c) id end.

Definition exec_row (c : clocks) (r : row) : clocks :=
  match f_meth (r_func r), f_owner (r_func r) with
  | MFinishStep, OSim => mkClk (S (c_sim c)) (c_mod c)
  | MFinishStep, OMod id => mkClk (c_sim c) (bump_ti (c_mod c) id)
  | _, _ => c
  end.

(* trace: for each executed row, (row, owner's ti at the call, sim ti at the call) *)
Fixpoint run_rows (c : clocks) (rows : list row) : clocks * list (row * nat * nat) :=
  match rows with
  | [] => (c, [])
  | r :: t => let '(cf, tr) := run_rows (exec_row c r) t in (cf, (r, owner_ti c (f_owner (r_func r)), c_sim c) :: tr)
  end.

Definition clocks0 : clocks := mkClk 0 [].

(* Loop.run(until): execute from index until the first row after which now > until (now = value
   of the sim's native time vector at min(ti, npts-1)); returns the new index *)
Fixpoint run_until (now : nat -> Q) (until : option Q) (c : clocks) (rows : list row) (idx : nat) : clocks * nat :=
  match rows with
  | [] => (c, idx)
  | r :: t => let c' := exec_row c r in
              match until with
              | Some u => if andb (negb (Qeq_bool u 0)) (negb (Qle_bool (now (c_sim c')) u)) then (c', S idx)
                          else run_until now until c' t (S idx)
              | None => run_until now until c' t (S idx)
              end
  end.

(* Sim.run bookkeeping *)
Record simstate := mkSS { s_idx : nat; s_clk : clocks; s_complete : bool; s_ready : bool; s_scaled : nat }.
Definition sim_run (pl : list row) (now : nat -> Q) (until : option Q) (s : simstate) : res simstate :=
  if s_complete s then Err EAlreadyRun
  else let '(c, i) := run_until now until (s_clk s) (skipn (s_idx s) pl) (s_idx s) in
       if Nat.eqb i (length pl)
       then (if s_ready s then Err EAlreadyRun
             else Ok (mkSS i (mkClk (pred (c_sim c)) (map (fun iv => (fst iv, pred (snd iv))) (c_mod c))) true true (S (s_scaled s))))
       else Ok (mkSS i c false (s_ready s) (s_scaled s)).
Definition sim_finalize (s : simstate) : res simstate :=
  if s_ready s then Err EAlreadyRun else Ok (mkSS (s_idx s) (s_clk s) (s_complete s) true (S (s_scaled s))).

(* two handles on one run: after MultiSim.run's in-place update (old.__dict__.update(new.__dict__)) the caller's sim and the member are two objects
   that share people, results and loop -- hence the scaling counter -- but each keeps its OWN complete / results_ready flags.  An operation through
   one handle updates its flags and the shared counter; the other handle sees the counter only. *)
Definition set_scaled (s : simstate) (n : nat) : simstate := mkSS (s_idx s) (s_clk s) (s_complete s) (s_ready s) n.
Definition through (first : bool) (f : simstate -> res simstate) (p : simstate * simstate) : simstate * simstate :=
  let (a, b) := p in
  if first then match f a with Ok a' => (a', set_scaled b (s_scaled a')) | Err _ => p end
  else match f b with Ok b' => (set_scaled a (s_scaled b'), b') | Err _ => p end.

(* ---- Loop.collect_abs_tvecs keys the time vectors by the owner's NAME (a string), not by the module: the vector used for module `id` is that of the
   LAST module in the list carrying the same name.  `name : nat -> nat` gives the name of each module id. *)
Fixpoint find_last_named (name : nat -> nat) (mods : list modl) (nm : nat) : option modl :=
  match mods with
  | [] => None
  | m :: t => match find_last_named name t nm with Some m' => Some m' | None => if Nat.eqb (name (m_id m)) nm then Some m else None end
  end.
Definition owner_tvec_by_name (name : nat -> nat) (sim_tvec : list Q) (mods : list modl) (o : owner) : list Q :=
  match o with
  | OSim | OPeople => sim_tvec
  | OMod id => match find_last_named name mods (name id) with Some m => m_tvec m | None => [] end
  end.
