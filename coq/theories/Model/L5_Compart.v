(* L5: per-agent compartment machines, defined FROM the generated scripts of flag updates (Gen_Compart).
   Executable definitions only. *)
From SS Require Import Model.Prelude Model.L5_CompartBase Gen.Gen_Compart.
From Coq Require Import String.
Open Scope string_scope.

Definition valuation := list (string * bool).
Definition getv (v : valuation) (k : string) : bool :=
  match find (fun p => String.eqb (fst p) k) v with Some p => snd p | None => false end.
Definition setv (v : valuation) (k : string) (b : bool) : valuation :=
  map (fun p => if String.eqb (fst p) k then (k, b) else p) v.

(* run a method script for ONE agent.  cv gives the truth of every non-flag condition (keyed by its text) and the membership of
   the agent in the method's parameters (selectors that the method does not define, e.g. `uids`); the membership in a defined
   selector is computed when the selector is defined (flags NOW, plus its condition) and frozen in `mem` *)
Definition clause_holds (st : valuation) (cl : list string) : bool := existsb (getv st) cl.
Fixpoint run_script' (sc : list sitem) (cv mem st : valuation) : valuation :=
  match sc with
  | [] => st
  | SelDef n cls cond :: t =>
      let m := andb (forallb (clause_holds st) cls) (if String.eqb cond "" then true else getv cv cond) in
      run_script' t cv ((n, m) :: mem) st
  | SetFlag f b s :: t =>
      let m := match find (fun p => String.eqb (fst p) s) mem with Some p => snd p | None => getv cv s end in
      run_script' t cv mem (if m then setv st f b else st)
  end.
Definition run_script (sc : list sitem) (cv st : valuation) : option valuation := Some (run_script' sc cv [] st).

(* keys to enumerate: every condition text and every selector used without being defined earlier in the script *)
Fixpoint keys_of' (sc : list sitem) (defined : list string) : list string :=
  match sc with
  | [] => []
  | SelDef n _ cond :: t => (if String.eqb cond "" then [] else [cond]) ++ keys_of' t (n :: defined)
  | SetFlag _ _ s :: t => (if existsb (String.eqb s) defined then [] else [s]) ++ keys_of' t defined
  end.
Definition sels_of (sc : list sitem) : list string := keys_of' sc [].
Fixpoint dedup_str (l : list string) : list string :=
  match l with [] => [] | x :: t => if existsb (String.eqb x) t then dedup_str t else x :: dedup_str t end.

(* all valuations over a list of keys *)
Fixpoint all_vals (ks : list string) : list valuation :=
  match ks with
  | [] => [[]]
  | k :: t => flat_map (fun v => [(k, false) :: v; (k, true) :: v]) (all_vals t)
  end.

(* hand-written specification of a disease: the flags, the partition, subset relations, allowed arrows,
   preconditions on method arguments and couplings between selectors *)
Record dspec := mkSpec {
  s_name : string;
  s_flags : list string;
  s_part : list string;                       (* exactly one of these holds for a living agent *)
  s_subs : list (string * string);            (* (a, b): a implies b *)
  s_arrows : list (string * string);          (* allowed moves between compartments (identity always allowed) *)
  s_uids_pre : list string;                   (* flags required of a newly infected agent (set_prognoses argument) *)
  s_couple : list (string * string);          (* selector a implies selector b *)
  s_resolves_death : bool }.

Definition count_true (st : valuation) (ks : list string) : nat := List.length (filter (getv st) ks).
Definition valid (sp : dspec) (st : valuation) : bool :=
  andb (Nat.eqb (count_true st (s_part sp)) 1) (forallb (fun ab => implb (getv st (fst ab)) (getv st (snd ab))) (s_subs sp)).
Definition all_clear (sp : dspec) (st : valuation) : bool :=
  andb (Nat.eqb (count_true st (s_part sp)) 0) (forallb (fun ab => negb (getv st (fst ab))) (s_subs sp)).
Definition comp (sp : dspec) (st : valuation) : string := hd "" (filter (getv st) (s_part sp)).
Definition coupled (sp : dspec) (sv : valuation) : bool := forallb (fun ab => implb (getv sv (fst ab)) (getv sv (snd ab))) (s_couple sp).
Definition arrow_ok (sp : dspec) (a b : string) : bool :=
  orb (String.eqb a b) (existsb (fun ab => andb (String.eqb (fst ab) a) (String.eqb (snd ab) b)) (s_arrows sp)).

(* selectors that are not defined inside the method but are known to pick agents in a given state: (disease, method, selector, required flag).
   Syphilis.step_state: `congenital = self.ti_congenital == ti` is only ever scheduled (set_congenital) for agents infected in utero, who are
   still flagged susceptible. *)
Definition sel_pre : list (string * string * string * string) := [("Syphilis", "step_state", "congenital", "susceptible")].
Definition sel_pre_items (d m : string) : list sitem :=
  flat_map (fun q => let '(d', m', sel, f) := q in if andb (String.eqb d d') (String.eqb m m') then [SelDef sel [[f]] sel] else []) sel_pre.
(* set_prognoses(uids): the new cases satisfy the precondition (they were susceptible: C12) *)
Definition method_script (sp : dspec) (m : string) : list sitem :=
  sel_pre_items (s_name sp) m ++
  (if String.eqb m "set_prognoses" then SelDef "uids" (map (fun f => [f]) (s_uids_pre sp)) "uids" :: script_gen (s_name sp) m else script_gen (s_name sp) m).

(* exhaustive check of one living-agent method (step_state / set_prognoses): validity and arrows preserved *)
Definition check_live (sp : dspec) (m : string) : bool :=
  let sc := method_script sp m in
  let sels := dedup_str (sels_of sc) in
  forallb (fun st => implb (valid sp st)
    (forallb (fun sv => implb (coupled sp sv)
       match run_script sc sv st with
       | Some st' => andb (valid sp st') (arrow_ok sp (comp sp st) (comp sp st'))
       | None => true end) (all_vals sels))) (all_vals (s_flags sp)).

(* step_die: an agent in `uids` ends with every compartment flag cleared; any other agent is untouched *)
Definition check_die (sp : dspec) : bool :=
  let sc := script_gen (s_name sp) "step_die" in
  forallb (fun st => implb (valid sp st)
    (andb (match run_script sc [("uids", true)] st with Some st' => all_clear sp st' | None => false end)
          (match run_script sc [("uids", false)] st with Some st' => forallb (fun k => Bool.eqb (getv st' k) (getv st k)) (s_flags sp) | None => false end)))
    (all_vals (s_flags sp)).

Definition spec_SIR := mkSpec "SIR" ["susceptible"; "infected"; "recovered"] ["susceptible"; "infected"; "recovered"] []
  [("susceptible", "infected"); ("infected", "recovered")] ["susceptible"] [] true.
Definition spec_SIS := mkSpec "SIS" ["susceptible"; "infected"] ["susceptible"; "infected"] []
  [("susceptible", "infected"); ("infected", "susceptible")] ["susceptible"] [] false.
Definition spec_Measles := mkSpec "Measles" ["susceptible"; "exposed"; "infected"; "recovered"] ["susceptible"; "exposed"; "infected"; "recovered"] []
  [("susceptible", "exposed"); ("exposed", "infected"); ("infected", "recovered"); ("exposed", "recovered")] ["susceptible"] [] true.
Definition spec_Ebola := mkSpec "Ebola" ["susceptible"; "exposed"; "infected"; "severe"; "recovered"; "buried"] ["susceptible"; "exposed"; "infected"; "recovered"]
  [("severe", "infected")] [("susceptible", "exposed"); ("exposed", "infected"); ("infected", "recovered"); ("exposed", "recovered")] ["susceptible"]
  [] true.
Definition spec_Cholera := mkSpec "Cholera" ["susceptible"; "exposed"; "infected"; "symptomatic"; "recovered"] ["susceptible"; "exposed"; "recovered"]
  [("infected", "exposed"); ("symptomatic", "infected")] [("susceptible", "exposed"); ("exposed", "recovered")] ["susceptible"] [] true.
Definition spec_Gonorrhea := mkSpec "Gonorrhea" ["susceptible"; "infected"; "symptomatic"] ["susceptible"; "infected"]
  [("symptomatic", "infected")] [("susceptible", "infected"); ("infected", "susceptible")] ["susceptible"] [("symp_uids", "uids")] false.
Definition spec_HIV := mkSpec "HIV" ["susceptible"; "infected"; "on_art"] ["susceptible"; "infected"] []
  [("susceptible", "infected")] ["susceptible"] [] false.
(* Syphilis: one stage at a time; several due transitions may be taken within one call (the arrows are closed under composition);
   nothing leads back to susceptible, nothing leaves tertiary or congenital *)
Definition spec_Syphilis := mkSpec "Syphilis"
  ["susceptible"; "exposed"; "primary"; "secondary"; "latent_temp"; "latent_long"; "tertiary"; "congenital"]      (* the partition flags; infected / ever_exposed / immune are book-keeping, not compartments *)
  ["susceptible"; "exposed"; "primary"; "secondary"; "latent_temp"; "latent_long"; "tertiary"; "congenital"] []
  [("susceptible", "exposed"); ("susceptible", "congenital");
   ("exposed", "primary"); ("exposed", "secondary"); ("exposed", "latent_temp"); ("exposed", "latent_long"); ("exposed", "tertiary");
   ("primary", "secondary"); ("primary", "latent_temp"); ("primary", "latent_long"); ("primary", "tertiary");
   ("secondary", "latent_temp"); ("secondary", "latent_long"); ("secondary", "tertiary");
   ("latent_temp", "secondary"); ("latent_temp", "latent_long"); ("latent_temp", "tertiary");
   ("latent_long", "tertiary")] ["susceptible"] [] false.
