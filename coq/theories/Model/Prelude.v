(* Shared definitions used by the generated (Gen/*.v) and hand-written model files.
   Executable definitions only (plus the noncomputable boolean tests on R used by
   R-valued generated formulas). *)
From Coq Require Export ZArith QArith Qround Qabs List Bool.
From Coq Require Import Reals.
Export ListNotations.

Inductive err := ENotInitialized | ENotReady | ESeedRepeat | EKey | EValue | EType | EAlreadyRun | EIndex | EOther | EZeroDiv.

Inductive res (A : Type) := Ok (a : A) | Err (e : err).
Arguments Ok {A} a.
Arguments Err {A} e.

Definition bind {A B} (r : res A) (f : A -> res B) : res B :=
  match r with Ok a => f a | Err e => Err e end.

Definition is_ok {A} (r : res A) : bool := match r with Ok _ => true | Err _ => false end.

Definition err_eqb (a b : err) : bool :=
  match a, b with
  | ENotInitialized, ENotInitialized | ENotReady, ENotReady | ESeedRepeat, ESeedRepeat
  | EKey, EKey | EValue, EValue | EType, EType | EAlreadyRun, EAlreadyRun | EIndex, EIndex | EOther, EOther | EZeroDiv, EZeroDiv => true
  | _, _ => false
  end.

(* boolean comparisons on Q *)
Definition Qeqb (a b : Q) : bool := Qeq_bool a b.
Definition Qneqb (a b : Q) : bool := negb (Qeq_bool a b).
Definition Qleb (a b : Q) : bool := Qle_bool a b.
Definition Qltb (a b : Q) : bool := negb (Qle_bool b a).
Definition Qgeb (a b : Q) : bool := Qle_bool b a.
Definition Qgtb (a b : Q) : bool := negb (Qle_bool a b).
Definition Zneqb (a b : Z) : bool := negb (Z.eqb a b).

(* boolean comparisons on R (not computable; only used in statements about exp/ln formulas) *)
Definition Reqb (a b : R) : bool := if Req_EM_T a b then true else false.
Definition Rneqb (a b : R) : bool := negb (Reqb a b).
Definition Rleb (a b : R) : bool := if Rle_dec a b then true else false.
Definition Rltb (a b : R) : bool := if Rlt_dec a b then true else false.
Definition Rgeb (a b : R) : bool := Rleb b a.
Definition Rgtb (a b : R) : bool := Rltb b a.

(* Python's round(): round half to even, on exact rationals *)
Definition Qfloor' (q : Q) : Z := Qfloor q.
Definition round_half_even (q : Q) : Z :=
  let f := Qfloor q in
  let r := (q - inject_Z f)%Q in
  match Qcompare r (1#2) with
  | Lt => f
  | Gt => (f + 1)%Z
  | Eq => if Z.even f then f else (f + 1)%Z
  end.

(* int(): truncation toward zero *)
Definition Qtrunc (q : Q) : Z := if Qle_bool 0 q then Qfloor q else Qceiling q.

Definition Qabs' (q : Q) : Q := Qabs q.
(* |a-b| <= tol*max(1,|b|) *)
Definition Qclose (tol a b : Q) : bool :=
  Qle_bool (Qabs (a - b)) (tol * (if Qle_bool 1 (Qabs b) then Qabs b else 1)).

Fixpoint find_mismatch {A} (ok : A -> bool) (l : list A) (i : nat) : list nat :=
  match l with
  | [] => []
  | x :: t => if ok x then find_mismatch ok t (S i) else i :: find_mismatch ok t (S i)
  end.

Definition Nneqb (a b : nat) : bool := negb (Nat.eqb a b).
Definition Ngtb (a b : nat) : bool := Nat.ltb b a.
Definition Ngeb (a b : nat) : bool := Nat.leb b a.
