(* L5: pregnancy (demographics.Pregnancy) and the maternal networks.  Executable definitions only.
   The per-woman flag machine is DEFINED FROM the generated scripts (Gen_Preg.preg_script_gen); schedules, embryo age, edge end / keep /
   inactivity tests are the generated expressions. *)
From SS Require Import Model.Prelude Model.L5_CompartBase Gen.Gen_Compart Model.L5_Compart Gen.Gen_Preg.
From Coq Require Import String QArith Qround.
Local Open Scope list_scope.
Open Scope string_scope.

Definition preg_flags : list string := ["fecund"; "pregnant"; "postpartum"].
Definition pvalid (st : valuation) : bool := Nat.eqb (count_true st preg_flags) 1.
Definition pcomp (st : valuation) : string := hd "" (filter (getv st) preg_flags).
(* allowed moves of one call: conception, delivery, end of post-partum, loss of the pregnancy; delivery and the end of a (very short)
   post-partum period may fall in the same update_states call *)
Definition parrows : list (string * string) :=
  [("fecund", "pregnant"); ("pregnant", "postpartum"); ("postpartum", "fecund"); ("pregnant", "fecund")].
Definition parrow_ok (a b : string) : bool :=
  orb (String.eqb a b) (existsb (fun ab => andb (String.eqb (fst ab) a) (String.eqb (snd ab) b)) parrows).
(* set_prognoses(uids) is applied to the women returned by the fertility filter: fecund ones (the probability of the others is zeroed) *)
Definition preg_method_script (m : string) : list sitem :=
  if String.eqb m "set_prognoses" then SelDef "uids" [["fecund"]] "uids" :: preg_script_gen m else preg_script_gen m.
Definition check_preg (m : string) : bool :=
  let sc := preg_method_script m in
  let sels := dedup_str (sels_of sc) in
  forallb (fun st => implb (pvalid st)
    (forallb (fun sv => match run_script sc sv st with
                        | Some st' => andb (pvalid st') (parrow_ok (pcomp st) (pcomp st'))
                        | None => false end) (all_vals sels))) (all_vals preg_flags).
(* conception is meant for a fecund woman: a post-partum woman handed to set_prognoses would end in two states
   (a pregnant one would silently restart her pregnancy: make_pregnancies raises on that case, pinned) *)
Definition conception_needs_fecund : bool :=
  forallb (fun st => implb (andb (pvalid st) (getv st "postpartum"))
     match run_script (preg_script_gen "set_prognoses") [("uids", true)] st with Some st' => negb (pvalid st') | None => false end) (all_vals preg_flags).

(* ---- schedules *)
Definition delivery_due (ti_delivery : Q) (t : Z) : bool := Qleb ti_delivery (inject_Z t).        (* pinned: self.ti_delivery <= ti *)
Definition delivery_step (t0 : Z) (d : Q) : Z := (t0 + Qceiling d)%Z.
Definition postpartum_due (ti_pp : Q) (t : Z) : bool := Qleb ti_pp (inject_Z t).
(* age of the child k steps after a conception at step ti *)
Definition child_age (gest_years : Q) (ti : Z) (dt_year : Q) (k : Z) : Q :=
  embryo_age_gen gest_years (inject_Z ti) dt_year + inject_Z k * dt_year.

(* ---- parent / child links written by make_embryos *)
Fixpoint upd_many (f : nat -> option nat) (ks vs : list nat) : nat -> option nat :=
  match ks, vs with
  | k :: ks', v :: vs' => upd_many (fun x => if Nat.eqb x k then Some v else f x) ks' vs'
  | _, _ => f
  end.
Definition set_links (parent child : nat -> option nat) (mothers news : list nat) : (nat -> option nat) * (nat -> option nat) :=
  (upd_many parent news mothers, upd_many child mothers news).
