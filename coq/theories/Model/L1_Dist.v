(* L1: one ss.Dist as a state machine over the exact PCG64 stream.  Executable definitions only.
   Formulas (jump stride, targets, refusal guard, size from slots) are the GENERATED ones (Gen_Dist). *)
From SS Require Import Model.Prelude Model.L0_Pcg64 Gen.Gen_Dist.
Open Scope Z_scope.

Record dist := mkDist {
  d_hist0 : pcg;        (* history[0]: generator state right after init *)
  d_cur : pcg;          (* current bit-generator state *)
  d_last : pcg;         (* history[-1]: state stored by the last make_history *)
  d_ind : Z; d_called : Z;
  d_ready : bool; d_init : bool; d_strict : bool; d_auto : bool }.

Definition dist_init (g0 : pcg) (strict auto : bool) : dist :=
  mkDist g0 g0 g0 0 0 true true strict auto.

Definition set_cur (d : dist) (g : pcg) (ready : bool) : dist :=
  mkDist (d_hist0 d) g (d_last d) (d_ind d) (d_called d) ready (d_init d) (d_strict d) (d_auto d).

(* the clean generator state that belongs to jump index i *)
Definition state_of_ind (g0 : pcg) (i : Z) : pcg :=
  let g0' := mkPcg (p_st g0) (p_inc g0) (p_has32 g0) (p_buf32 g0) in
  if i =? 0 then g0' else pcg_jumped i g0.

(* Dist.jump(to|delta, force) *)
Definition jump_to (d : dist) (jumps : Z) (force : bool) : res dist :=
  if jump_refuse_gen (d_ind d) jumps force then Err ESeedRepeat
  else Ok (mkDist (d_hist0 d) (state_of_ind (d_hist0 d) jumps) (d_last d) jumps (d_called d)
                  true (d_init d) (d_strict d) (d_auto d)).

Definition do_jump (d : dist) (to : option Z) (delta : Z) (force : bool) : res dist :=
  jump_to d (match to with Some t => jump_target_to_gen t | None => jump_target_delta_gen (d_ind d) delta end) force.

Definition do_jump_dt (d : dist) (ti : Z) (force : bool) : res dist :=
  do_jump d (Some (jump_dt_target_gen jump_size_gen ti)) 1 force.

(* Dist.reset(0) / reset(-1) *)
Definition do_reset (d : dist) (last : bool) : dist :=
  set_cur d (if last then d_last d else d_hist0 d) true.

Definition zmax_list (l : list Z) : Z := fold_right Z.max 0 l.
Definition nthZ (l : list Z) (i : Z) : Z := nth (Z.to_nat i) l (-1).

(* tail of rvs: reset(-1) | auto jump (delta 1) | strict: not ready *)
Definition rvs_tail (d : dist) (reset : bool) : res dist :=
  if reset then Ok (do_reset d true)
  else if d_auto d then do_jump d None 1 false
  else if d_strict d then Ok (set_cur d (d_cur d) false)
  else Ok d.

(* rvs of the uniform family (ss.random): returns the 24-bit numerators of the float32 values.
   size: Some slots (agent call: size = max slot + 1, values indexed by slot) or an integer n. *)
Definition rvs_guard (d : dist) : res unit :=
  if negb (d_init d) then Err ENotInitialized
  else if andb (negb (d_ready d)) (d_strict d) then Err ENotReady
  else Ok tt.

Definition do_rvs (d : dist) (slots : option (list Z)) (n : Z) (reset : bool) : res (dist * list Z) :=
  bind (rvs_guard d) (fun _ =>
  let size := match slots with
              | Some sl => match sl with [] => 0 | _ => size_of_max_gen (zmax_list sl) end
              | None => n end in
  if size =? 0 then Ok (d, [])
  else
    let '(xs, g') := rand_f32 (Z.to_nat size) (d_cur d) in
    let vals := match slots with Some sl => map (nthZ xs) sl | None => xs end in
    let d1 := mkDist (d_hist0 d) g' (d_cur d) (d_ind d) (d_called d + 1) (d_ready d) (d_init d) (d_strict d) (d_auto d) in
    bind (rvs_tail d1 reset) (fun d2 => Ok (d2, vals))).

(* bernoulli: numerators compared with p given as the exact rational the comparison uses *)
Definition bern_of (p_num p_den : Z) (x : Z) : bool := x * p_den <? p_num * 16777216.

(* multi_random.combine_rvs on two float32 values given by their numerators: uint32 arithmetic *)
Definition combine32 (a b : Z) : Z :=
  let x := f32_bits a in let y := f32_bits b in
  Z.lxor ((x * y) mod M32) ((x - y) mod M32).

(* operations on one distribution *)
Inductive dop :=
| OJump (to : option Z) (delta : Z) (force : bool)
| OJumpDt (ti : Z) (force : bool)
| OReset (last : bool)
| ORvs (slots : list Z) (reset : bool)
| ORvsN (n : Z) (reset : bool).

Definition dstep (d : dist) (o : dop) : res (dist * list Z) :=
  match o with
  | OJump to delta force => bind (do_jump d to delta force) (fun d' => Ok (d', []))
  | OJumpDt ti force => bind (do_jump_dt d ti force) (fun d' => Ok (d', []))
  | OReset last => Ok (do_reset d last, [])
  | ORvs sl reset => do_rvs d (Some sl) 0 reset
  | ORvsN n reset => do_rvs d None n reset
  end.

(* run a history; a raising operation leaves the state unchanged (exception before mutation)
   and is recorded as None in the output trace *)
Fixpoint drun (d : dist) (ops : list dop) : dist * list (option (list Z)) :=
  match ops with
  | [] => (d, [])
  | o :: t => match dstep d o with
              | Ok (d', out) => let '(df, outs) := drun d' t in (df, Some out :: outs)
              | Err _ => let '(df, outs) := drun d t in (df, None :: outs)
              end
  end.

(* Dists.check_seeds *)
Fixpoint check_seeds (seen seeds : list Z) : res unit :=
  match seeds with
  | [] => Ok tt
  | s :: t => if existsb (Z.eqb s) seen then Err ESeedRepeat else check_seeds (s :: seen) t
  end.

(* same as drun but keeping the error kind of refused operations (used by the correspondence check) *)
Fixpoint dtrace (d : dist) (ops : list dop) : dist * list (res (list Z)) :=
  match ops with
  | [] => (d, [])
  | o :: t => match dstep d o with
              | Ok (d', out) => let '(df, outs) := dtrace d' t in (df, Ok out :: outs)
              | Err e => let '(df, outs) := dtrace d t in (df, Err e :: outs)
              end
  end.

(* bernoulli(p).rvs on slots and rand_raw: same machine, different read-out of the stream *)
Definition res_eqb (a b : res (list Z)) : bool :=
  match a, b with
  | Ok x, Ok y => if list_eq_dec Z.eq_dec x y then true else false
  | Err e, Err f => err_eqb e f
  | _, _ => false
  end.
