(* L4 base types for the integration loop (used by the generated Gen_Loop.v). *)
From SS Require Import Model.Prelude.

Inductive group := GDemographics | GNetworks | GDiseases | GConnectors | GInterventions | GProducts | GAnalyzers | GAll.
Inductive method := MStartStep | MStep | MStepState | MStepDie | MUpdateResults | MFinishStep.
(* a phase of collect_funcs: a sim method, a people method, or one method of every module of a group
   (optionally only of modules that are ss.Disease instances) *)
Inductive phase := PSim (m : method) | PPeople (m : method) | PEach (g : group) (m : method) (only_disease : bool).

Definition group_eqb (a b : group) : bool :=
  match a, b with
  | GDemographics, GDemographics | GNetworks, GNetworks | GDiseases, GDiseases | GConnectors, GConnectors
  | GInterventions, GInterventions | GProducts, GProducts | GAnalyzers, GAnalyzers | GAll, GAll => true
  | _, _ => false end.
Definition method_eqb (a b : method) : bool :=
  match a, b with
  | MStartStep, MStartStep | MStep, MStep | MStepState, MStepState | MStepDie, MStepDie
  | MUpdateResults, MUpdateResults | MFinishStep, MFinishStep => true
  | _, _ => false end.
