(* L6: a simulation as a list of components stepping over a shared state, each drawing from its own named distributions.
   Definitions only (the abstract machine of C01 / C02 / C18).  The seed of a distribution is the GENERATED seed_gen (offset of its
   trace + base seed); the replicate seed is the GENERATED reseed_gen; the list of call sites that draw from the process-wide
   generator is the GENERATED global_rng_sites_gen. *)
From SS Require Import Model.Prelude Gen.Gen_Dist Gen.Gen_Sim.
From Coq Require Import String Permutation Sorting.Sorted Qround.
Local Open Scope list_scope.
Open Scope string_scope.

(* the classes that contain a call site drawing from the process-wide generator *)
Definition class_of (q : string) : string :=
  match index 0 "." q with Some i => substring 0 i q | None => q end.
Definition global_rng_classes : list string := map (fun s => class_of (snd (fst s))) global_rng_sites_gen.
Definition draws_from_global (cls : string) : bool := existsb (String.eqb cls) global_rng_classes.

Section Machine.
  Variables shared mstate draws gstate : Type.
  (* the stream of a distribution is a function of its seed, the step and the ordinal of the call within the step (C03, C04) *)
  Variable stream : Z -> nat -> nat -> draws.
  Variable offset : string -> Z.                                   (* str2int: sha of the trace, modulo seed_modulo_gen *)
  Definition dist_draw (base : Z) (trace : string) (ti ord : nat) : draws := stream (seed_gen (offset trace) base) ti ord.

  (* a component: its name and its step.  The step sees ONLY the draws of its own distributions (trace = name ++ suffix), the step
     index, its private state, the shared state and the state of the process-wide generator *)
  Record comp := mkComp { cname : string; cstep : (string -> nat -> draws) -> nat -> mstate -> shared -> gstate -> mstate * shared * gstate }.
  Definition own_draws (base : Z) (c : comp) (ti : nat) : string -> nat -> draws := fun suffix ord => dist_draw base (cname c ++ suffix) ti ord.

  Fixpoint step_all (base : Z) (ti : nat) (cs : list comp) (ms : list mstate) (s : shared) (g : gstate) : list mstate * shared * gstate :=
    match cs, ms with
    | c :: cs', m :: ms' =>
        let '(m1, s1, g1) := cstep c (own_draws base c ti) ti m s g in
        let '(ms2, s2, g2) := step_all base ti cs' ms' s1 g1 in (m1 :: ms2, s2, g2)
    | _, _ => ([], s, g)
    end.
  (* n steps from step ti; before every step the environment may do anything to the process-wide generator *)
  Fixpoint run (base : Z) (perturb : nat -> gstate -> gstate) (cs : list comp) (n ti : nat) (ms : list mstate) (s : shared) (g : gstate) : list mstate * shared * gstate :=
    match n with
    | O => (ms, s, g)
    | S k => let '(ms1, s1, g1) := step_all base ti cs ms s (perturb ti g) in run base perturb cs k (S ti) ms1 s1 g1
    end.

  (* two simulations in one process share nothing but the process-wide generator; a schedule says which of them takes its next step
     (true: the first, false: the other).  The result is the final state of the FIRST simulation *)
  Fixpoint interleaved (baseA baseB : Z) (csA csB : list comp) (sched : list bool) (tiA : nat) (msA : list mstate) (sA : shared)
                       (tiB : nat) (msB : list mstate) (sB : shared) (g : gstate) : list mstate * shared :=
    match sched with
    | [] => (msA, sA)
    | true :: t => let '(m1, s1, g1) := step_all baseA tiA csA msA sA g in interleaved baseA baseB csA csB t (S tiA) m1 s1 tiB msB sB g1
    | false :: t => let '(m1, s1, g1) := step_all baseB tiB csB msB sB g in interleaved baseA baseB csA csB t tiA msA sA (S tiB) m1 s1 g1
    end.
  (* a component that never reads the process-wide generator *)
  Definition ignores_global (c : comp) : Prop := forall d ti m s g g', fst (cstep c d ti m s g) = fst (cstep c d ti m s g').
  (* a component that only reads the shared state and samples its own distributions *)
  Definition sampling_only (c : comp) : Prop := forall d ti m s g, snd (fst (cstep c d ti m s g)) = s /\ snd (cstep c d ti m s g) = g.
  (* two components that do not see each other's effects: running them in either order gives the same thing *)
  Definition independent (c1 c2 : comp) : Prop := forall d1 d2 ti m1 m2 s g,
    (let '(a1, s1, g1) := cstep c1 d1 ti m1 s g in let '(a2, s2, g2) := cstep c2 d2 ti m2 s1 g1 in (a1, a2, s2, g2)) =
    (let '(b2, t1, h1) := cstep c2 d2 ti m2 s g in let '(b1, t2, h2) := cstep c1 d1 ti m1 t1 h1 in (b1, b2, t2, h2)).

  Fixpoint insert_at {A} (i : nat) (x : A) (l : list A) : list A :=
    match i, l with O, _ => x :: l | S k, h :: t => h :: insert_at k x t | S _, [] => [x] end.
  Fixpoint remove_at {A} (i : nat) (l : list A) : list A :=
    match i, l with O, _ :: t => t | S k, h :: t => h :: remove_at k t | _, [] => [] end.
End Machine.

(* ---- multi-run: replicate i runs with seed base + i; tasks may be executed in any order by any number of workers *)
Section Multi.
  Variable result : Type.
  Variable simulate : Z -> result.                 (* a standalone run as a function of its seed (C01) *)
  Definition member (base : Z) (i : nat) : result := simulate (reseed_gen base (Z.of_nat i)).
  Definition serial_runs (base : Z) (n : nat) : list result := map (member base) (seq 0 n).
  (* a schedule executes the tasks in some order and files each result under its index *)
  Definition executed (base : Z) (sched : list nat) : list (nat * result) := map (fun i => (i, member base i)) sched.
  Fixpoint filed (i : nat) (l : list (nat * result)) : option result :=
    match l with [] => None | (j, r) :: t => if Nat.eqb i j then Some r else filed i t end.
  Definition assembled (n : nat) (l : list (nat * result)) : list (option result) := map (fun i => filed i l) (seq 0 n).
  (* in-place updating (MultiSim.run): when the finished list has the length of the caller's list, the caller's object at position i takes
     over the whole state of finished member i (old.__dict__.update(new.__dict__)); otherwise the caller's objects are left alone *)
  Variable obj : Type.
  Variable take_over : obj -> result -> obj.
  Definition update_in_place (objs : list obj) (rs : list result) : list obj :=
    if Nat.eqb (List.length rs) (List.length objs) then map (fun p => take_over (fst p) (snd p)) (combine objs rs) else objs.
End Multi.

(* ---- reduced statistics of the members *)
Definition qsum (l : list Q) : Q := fold_right Qplus 0 l.
Definition qmean_of (l : list Q) : Q := qsum l / inject_Z (Z.of_nat (List.length l)).
(* np.std squared: the mean squared deviation from the mean *)
Definition qvar_of (l : list Q) : Q := qmean_of (map (fun x => (x - qmean_of l) * (x - qmean_of l)) l).
Fixpoint zinsert (x : Z) (l : list Z) : list Z := match l with [] => [x] | h :: t => if Z.leb x h then x :: l else h :: zinsert x t end.
Definition zsort (l : list Z) : list Z := fold_right zinsert [] l.
(* res[:] = statistic when the member series is an int64 array (count results scaled by an integer pop_scale): NumPy casts the float to the
   array's integer type, i.e. truncates (non-negative counts: floor) *)
Definition stored_in_integer_series (q : Q) : Q := inject_Z (Qfloor q).
(* np.quantile (linear interpolation) on integer-valued members: position q * (n - 1) on the sorted values *)
Definition quantile (q : Q) (l : list Z) : Q :=
  let s := zsort l in
  let pos := q * inject_Z (Z.of_nat (List.length s - 1)) in
  let lo := Qfloor pos in
  let a := nth (Z.to_nat lo) s 0%Z in
  let b := nth (Z.to_nat (lo + 1)) s a in
  inject_Z a + (pos - inject_Z lo) * inject_Z (b - a).

(* ---- naming of distributions (Dists.init): the object search enumerates (path, object) pairs in a fixed order -- the containers of the sim in the
   order demographics, networks, diseases, interventions, analyzers, connectors, each module's attributes in definition order -- and an object is
   named after the FIRST path that reaches it; its seed is sha(name) + base seed (seed_gen) *)
Definition name_of (i : nat) (l : list (string * nat)) : option string :=
  option_map fst (find (fun x => Nat.eqb (snd x) i) l).
