(* L5: per-step demographic hazards, ageing, table lookup.  Executable definitions only.
   The factor branches and products are the GENERATED ones (Gen_Demog). *)
From SS Require Import Model.Prelude Model.L3_Units Gen.Gen_Time Model.L3_TimePar Gen.Gen_Demog.

Definition clip01 (q : Q) : Q := if Qle_bool q 0 then 0 else if Qle_bool 1 q then 1 else q.

(* the value of a TimePar rate (per year) as seen by a module with (unit, dt): rate per module step *)
Definition rate_per_step (r : Q) (unit : unit_t) (dt : Q) : res Q := tp_values (mkTP KRate r UYear 1 unit dt).

(* Deaths.make_death_prob_fn for a scalar rate given as a plain number or as ss.peryear(r) *)
Definition death_prob (is_tp : bool) (r units rel : Q) (unit : unit_t) (dt : Q) : res Q :=
  bind (if is_tp then rate_per_step r unit dt else Ok r) (fun dr =>
  bind (death_prob_gen is_tp dr units rel unit dt) (fun p => Ok (clip01 p))).
Definition death_prob_raw (is_tp : bool) (r units rel : Q) (unit : unit_t) (dt : Q) : res Q :=
  bind (if is_tp then rate_per_step r unit dt else Ok r) (fun dr => death_prob_gen is_tp dr units rel unit dt).

Definition birth_prob (is_tp : bool) (r units rel : Q) (unit : unit_t) (dt : Q) : res Q :=
  bind (if is_tp then rate_per_step r unit dt else Ok r) (fun br =>
  bind (birth_prob_gen is_tp br units rel unit dt) (fun p => Ok (clip01 p))).
Definition birth_prob_raw (is_tp : bool) (r units rel : Q) (unit : unit_t) (dt : Q) : res Q :=
  bind (if is_tp then rate_per_step r unit dt else Ok r) (fun br => birth_prob_gen is_tp br units rel unit dt).

Definition fertility_prob (r units rel : Q) (unit : unit_t) (dt : Q) (eligible : bool) : res Q :=
  bind (fertility_prob_gen r units rel unit dt) (fun p => Ok (if eligible then clip01 p else 0)).

(* step length in years *)
Definition dt_year (unit : unit_t) (dt : Q) : Q := dt * unit_days unit / unit_days UYear.

(* ageing *)
Fixpoint age_after (k : nat) (age dty : Q) : Q := match k with O => age | S j => age_after j age dty + dty end.

(* np.digitize(age, bins) - 1 for increasing bins: index of the last bin edge <= age, -1 when below the first edge *)
Fixpoint digitize (age : Q) (bins : list Q) : Z :=
  match bins with [] => 0 | b :: t => if Qle_bool b age then 1 + digitize age t else 0 end.
Definition bin_index (age : Q) (bins : list Q) : Z := digitize age bins - 1.
(* values[idx] with Python's negative indexing *)
Definition py_index (vals : list Q) (i : Z) : Q :=
  if (i <? 0)%Z then nth (Z.to_nat (Z.of_nat (length vals) + i)) vals 0 else nth (Z.to_nat i) vals 0.
