(* L1 (discrete choice): NumPy's Generator.choice(a, p=p) as used by ss.choice — cdf = cumsum(p); idx = searchsorted(cdf, u, side='right') —
   and ss.choice.ppf (searchsorted side='left').  Executable definitions only; exact rationals. *)
From Coq Require Import QArith List.
Import ListNotations.
Open Scope Q_scope.

Fixpoint cumsum_from (acc : Q) (p : list Q) : list Q :=
  match p with [] => [] | x :: r => (acc + x) :: cumsum_from (acc + x) r end.
Definition cumsum (p : list Q) : list Q := cumsum_from 0 p.

(* insertion index of u in a sorted list: number of entries <= u (side='right') / < u (side='left') *)
Fixpoint count_le (xs : list Q) (u : Q) : nat :=
  match xs with [] => 0%nat | x :: r => ((if Qle_bool x u then 1 else 0) + count_le r u)%nat end.
Fixpoint count_lt (xs : list Q) (u : Q) : nat :=
  match xs with [] => 0%nat | x :: r => ((if Qle_bool u x then 0 else 1) + count_lt r u)%nat end.

Definition choice_np (p : list Q) (u : Q) : nat := count_le (cumsum p) u.
Definition choice_ppf (p : list Q) (u : Q) : nat := count_lt (cumsum p) u.

(* prefix sums: psum i p = p_0 + ... + p_{i-1} *)
Fixpoint psum (i : nat) (p : list Q) : Q :=
  match i, p with S j, x :: r => x + psum j r | _, _ => 0 end.

Definition all_nonneg (p : list Q) : Prop := Forall (fun x => 0 <= x) p.

(* NumPy normalises the cdf by its last entry (cdf /= cdf[-1]) *)
Definition total (p : list Q) : Q := psum (length p) p.
Definition normalise (p : list Q) : list Q := map (fun x => x / total p) p.
Definition choice_np_norm (p : list Q) (u : Q) : nat := choice_np (normalise p) u.
