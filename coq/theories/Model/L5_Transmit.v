(* L5: network transmission kernel (Infection.infect / compute_transmission) and mixing pools.
   Executable definitions only.  Probability product, comparison direction, net_beta and the pool
   probability are the GENERATED ones (Gen_Disease). *)
From SS Require Import Model.Prelude Gen.Gen_Arr Model.L2_People Gen.Gen_Disease.

Record edge := mkEdge { e_p1 : nat; e_p2 : nat; e_beta : Q }.
(* a network as seen by one disease: its edges and the disease's beta for the two directions *)
Record netw := mkNet { n_edges : list edge; n_b0 : Q; n_b1 : Q }.

(* derived arrays of infect(): rel_trans = infectious * rel_trans, rel_sus = susceptible * rel_sus,
   defined on the ACTIVE agents only (Arr.asnew): everything else is uninitialised memory *)
Definition masked (flag fac : list cell) (au : list nat) : list cell :=
  set_many (repeat G (length fac)) au (map (fun u => b2q (qtrue (get_raw flag u)) * cell_q (get_raw fac u)) au).

Inductive event := EvNone | EvHit (trg src : nat) | EvGarbage.

Definition edge_event (rt rs : list cell) (s t : nat) (ebeta beta r : Q) : event :=
  match get_raw rt s, get_raw rs t with
  | V a, V b => if transmitted_gen (p_transmit_gen a b (net_beta_gen ebeta beta)) r then EvHit t s else EvNone
  | _, _ => EvGarbage
  end.

(* one direction of one network: src/trg columns, one random number per edge *)
Fixpoint dir_events (rt rs : list cell) (fwd : bool) (beta : Q) (es : list edge) (rands : list Q) : list event :=
  match es, rands with
  | e :: es', r :: rs' =>
      let s := if fwd then e_p1 e else e_p2 e in
      let t := if fwd then e_p2 e else e_p1 e in
      edge_event rt rs s t (e_beta e) beta r :: dir_events rt rs fwd beta es' rs'
  | _, _ => []
  end.

(* all networks in order; for each network direction 0 (p1->p2) then direction 1 (p2->p1); a direction with
   beta = 0 or a network without edges is skipped and consumes no random numbers: the executed calls are the
   list of tasks (network index, direction, network), each paired with the random numbers of its call *)
Fixpoint number_from {A} (i : nat) (l : list A) : list (nat * A) :=
  match l with [] => [] | x :: t => (i, x) :: number_from (S i) t end.
Definition net_tasks (inn : nat * netw) : list (nat * bool * netw) :=
  let '(i, n) := inn in
  match n_edges n with
  | [] => []
  | _ => (if Qeq_bool (n_b0 n) 0 then [] else [(i, true, n)]) ++ (if Qeq_bool (n_b1 n) 0 then [] else [(i, false, n)])
  end.
Definition tasks (nets : list netw) : list (nat * bool * netw) := flat_map net_tasks (number_from 0 nets).
Definition dir_beta (fwd : bool) (n : netw) : Q := if fwd then n_b0 n else n_b1 n.
Definition task_events (rt rs : list cell) (tr : (nat * bool * netw) * list Q) : list (event * nat) :=
  let '((i, fwd, n), rands) := tr in
  map (fun e => (e, i)) (dir_events rt rs fwd (dir_beta fwd n) (n_edges n) rands).
Definition all_events (rt rs : list cell) (nets : list netw) (rands : list (list Q)) : list (event * nat) :=
  flat_map (task_events rt rs) (combine (tasks nets) rands).

Definition hits (evs : list (event * nat)) : list (nat * nat * nat) :=   (* (target, source, network) *)
  flat_map (fun en => match fst en with EvHit t s => [(t, s, snd en)] | _ => [] end) evs.
Definition has_garbage (evs : list (event * nat)) : bool :=
  existsb (fun en => match fst en with EvGarbage => true | _ => false end) evs.

(* np.unique(return_index=True): sorted distinct targets, each with its FIRST occurrence *)
Definition first_of (t : nat) (hs : list (nat * nat * nat)) : option (nat * nat * nat) :=
  find (fun h => Nat.eqb (fst (fst h)) t) hs.
Definition dedup (hs : list (nat * nat * nat)) : list (nat * nat * nat) :=
  flat_map (fun t => match first_of t hs with Some h => [h] | None => [] end) (sort_unique (map (fun h => fst (fst h)) hs)).

(* Infection.infect: None when the outcome would depend on uninitialised memory *)
Definition infect (inf sus rel_trans rel_sus : list cell) (au : list nat) (nets : list netw) (rands : list (list Q))
  : option (list (nat * nat * nat)) :=
  let rt := masked inf rel_trans au in
  let rs := masked sus rel_sus au in
  let evs := all_events rt rs nets rands in
  if has_garbage evs then None else Some (dedup (hits evs)).

(* ---- mixing pool: p_i = beta * mean(infectious*rel_trans over src) * eff_contacts_i * susceptible_i * rel_sus_i *)
Definition qmean (l : list Q) : Q := fold_left Qplus l 0 / inject_Z (Z.of_nat (length l)).
Definition pool_probs (inf sus rel_trans rel_sus contacts : list cell) (beta : Q) (src dst : list nat) : list Q :=
  let trans := qmean (map (fun u => b2q (qtrue (get_raw inf u)) * cell_q (get_raw rel_trans u)) src) in
  map (fun u => pool_p_gen beta trans (cell_q (get_raw contacts u) * b2q (qtrue (get_raw sus u)) * cell_q (get_raw rel_sus u))) dst.
(* Bernoulli filter with one uniform per destination agent *)
Definition pool_new_cases (probs : list Q) (dst : list nat) (us : list Q) : list nat :=
  map fst (filter (fun x => Qltb (snd (snd x)) (fst (snd x))) (combine dst (combine probs us))).
