(* L5: delivery of interventions (interventions.py, products.py, sir_vaccine).
   Executable definitions only.  The window adjustment, end point, capacity test and vaccine factor are the GENERATED ones (Gen_Intv);
   the step functions follow the shape-pinned bodies of BaseVaccination.step / BaseScreening.step / BaseTest.deliver /
   BaseTreatment.step / treat_num.* / Tx.administer. *)
From SS Require Import Model.Prelude Gen.Gen_Arr Model.L2_People Gen.Gen_Intv Model.L5_CompartBase Gen.Gen_Compart Model.L5_Compart.
From Coq Require Import String.
Local Open Scope list_scope.
Local Open Scope Z_scope.

(* ------------------------------------------------------------------ delivery windows *)
Definition zrange (a b : Z) : list Z := map (fun i => a + Z.of_nat i) (seq 0 (Z.to_nat (b - a + 1))).
(* RoutineDelivery: timepoints = inclusiverange(start_point, end_point), start_point / idx_end = first index of start_year / end_year
   on the sim's year vector *)
Definition routine_timepoints (idx_start idx_end : Z) (dt : Q) : list Z :=
  zrange idx_start (end_point_gen (adj_factor_gen dt) idx_end).
(* CampaignDelivery: timepoints = findnearest(timevec, years): first index minimising |grid - y| *)
Fixpoint argmin_from (best : nat) (bestd : Q) (i : nat) (ds : list Q) : nat :=
  match ds with [] => best | d :: t => if Qltb d bestd then argmin_from i d (S i) t else argmin_from best bestd (S i) t end.
Definition nearest_idx (grid : list Q) (y : Q) : nat :=
  match map (fun g => Qabs (g - y)) grid with [] => 0%nat | d :: t => argmin_from 0 d 1 t end.
Definition campaign_timepoints (grid : list Q) (years : list Q) : list Z := map (fun y => Z.of_nat (nearest_idx grid y)) years.

(* the gate `sim.ti in self.timepoints` and the coverage of the step `self.prob[findinds(timepoints, ti)[0]]` *)
Definition delivers (tps : list Z) (ti : Z) : bool := existsb (Z.eqb ti) tps.
Fixpoint tp_index (tps : list Z) (ti : Z) : option nat :=
  match tps with [] => None | x :: t => if Z.eqb x ti then Some 0%nat else option_map S (tp_index t ti) end.
Inductive gate := Closed | Open (p : Q) | IndexErr.
Definition step_gate (tps : list Z) (probs : list Q) (ti : Z) : gate :=
  match tp_index tps ti with
  | None => Closed
  | Some i => match nth_error probs i with Some p => Open p | None => IndexErr end
  end.

(* ------------------------------------------------------------------ acceptance: Bernoulli filter over the eligible agents *)
Definition accept (draw : nat -> Q) (p : Q) (us : list nat) : list nat := filter (fun u => Qltb (draw u) p) us.

(* ------------------------------------------------------------------ per-agent records updated for the recipients only *)
Fixpoint upd_where {A} (f : A -> A) (us : list nat) (l : list A) (i : nat) : list A :=
  match l with [] => [] | x :: t => (if mem i us then f x else x) :: upd_where f us t (S i) end.
Definition scale (f : Q) (c : cell) : cell := match c with V q => V (q * f) | G => G end.

(* vaccination: recipients, then vaccinated / n_doses / rel_sus of the recipients *)
Record vpop := mkVP { vaccinated : list bool; doses : list Z; rel_sus : list cell }.
Definition vx_apply (acc : list nat) (eff : Q) (s : vpop) : vpop :=
  mkVP (upd_where (fun _ => true) acc (vaccinated s) 0) (upd_where (fun d => d + 1) acc (doses s) 0)
       (upd_where (scale (vx_factor_gen eff)) acc (rel_sus s) 0).
Definition vx_step (tps : list Z) (probs : list Q) (ti : Z) (eligible : list nat) (draw : nat -> Q) (eff : Q) (s : vpop)
  : option (list nat * vpop) :=
  match step_gate tps probs ti with
  | Closed => Some ([], s)
  | IndexErr => None
  | Open p => let acc := accept draw p eligible in Some (acc, vx_apply acc eff s)
  end.
(* screening: same gate, the records are screened / screens *)
Definition screen_step (tps : list Z) (probs : list Q) (ti : Z) (eligible : list nat) (draw : nat -> Q) : option (list nat) :=
  match step_gate tps probs ti with Closed => Some [] | IndexErr => None | Open p => Some (accept draw p eligible) end.

(* ------------------------------------------------------------------ treat_num: FIFO queue with a per-step capacity *)
(* Python slice queue[:c]: a negative c counts from the end *)
Definition py_prefix (c : Z) (q : list nat) : list nat :=
  if c <? 0 then firstn (Z.to_nat (Z.of_nat (List.length q) + c)) q else firstn (Z.to_nat c) q.
Definition candidates (cap : option Z) (q : list nat) : list nat :=
  match q with
  | [] => []
  | _ => if use_all_gen cap (Z.of_nat (List.length q)) then q else match cap with Some c => py_prefix c q | None => q end
  end.
(* one step: accepted agents join the queue; candidates = head of the queue; treated = candidates still eligible (sorted, unique);
   treated agents leave the queue (all their occurrences) *)
Definition treat_step (cap : option Z) (queue accepted still : list nat) : list nat * list nat :=
  let q1 := queue ++ accepted in
  let treated := uids_and (candidates cap q1) still in
  (treated, filter (fun u => negb (mem u treated)) q1).
Fixpoint treat_run (cap : option Z) (queue : list nat) (steps : list (list nat * list nat)) : list (list nat) * list nat :=
  match steps with
  | [] => ([], queue)
  | (acc, still) :: t => let '(tr, q') := treat_step cap queue acc still in
                         let '(trs, qf) := treat_run cap q' t in (tr :: trs, qf)
  end.

(* ------------------------------------------------------------------ Tx.administer: one agent, the rows of the product table in the order
   of first appearance of their state; oks = outcome of the efficacy draw of each row for this agent *)
Definition tx_row (recipient ok : bool) (row : string * string) (st : valuation) : valuation :=
  if andb recipient (andb (getv st (fst row)) ok) then setv (setv st (fst row) false) (snd row) true else st.
Fixpoint tx_agent (recipient : bool) (rows : list (string * string)) (oks : list bool) (st : valuation) : valuation :=
  match rows, oks with
  | r :: rows', ok :: oks' => tx_agent recipient rows' oks' (tx_row recipient ok r st)
  | _, _ => st
  end.

(* ------------------------------------------------------------------ Dx.administer: one agent.  The result starts at the default (the last category
   of the hierarchy) and, for every (disease, state) of the product table the agent is in, is lowered to the category drawn for that state *)
Definition dx_step (acc : nat) (r : bool * nat) : nat := if fst r then Nat.min (snd r) acc else acc.
Definition dx_agent (default : nat) (rows : list (bool * nat)) : nat := fold_left dx_step rows default.
(* the dictionary returned: agents of `uids` grouped by result category *)
Definition dx_group (k : nat) (res : list (nat * nat)) : list nat := map fst (filter (fun ur => Nat.eqb (snd ur) k) res).
