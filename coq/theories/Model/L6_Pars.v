(* L6: parameter updating (parameters.Pars.update and its type-specific updaters).  Executable definitions only.
   The dispatch tables are the GENERATED ones (Gen_Pars); this file gives them meaning: which tests a value satisfies (the isinstance /
   callable facts of the value kinds, checked against real objects by the harness) and what each action does to the stored parameter. *)
From SS Require Import Model.Prelude Model.L6_ParsBase Gen.Gen_Pars.
From Coq Require Import String.
Local Open Scope list_scope.
Open Scope string_scope.

(* a supplied value *)
Inductive nv :=
  | NVNum (z : Z) | NVStr (s : string) | NVList (l : list Z) | NVNone | NVFrame (id : Z) | NVArr (id : Z)
  | NVTimePar (isdur isbeta : bool) (v : Z)
  | NVDist (isbern : bool) (first_timepar : option bool) (id : Z)      (* first_timepar = Some isdur when its first parameter is a time parameter *)
  | NVFunc (id : Z)
  | NVDict (ty : option string) (kw : list (string * Z))
  | NVNdict (empty : bool) | NVModule (id : Z)
  | NVOther (id : Z).                                                   (* tuple, set, date, ...: satisfies no test *)
(* how a time parameter / distribution object was last re-parameterised *)
Inductive setargs := Orig | SetArg (x : nv) | SetStar (l : list Z) | SetKw (kw : list (string * Z)) | Made (ty : string) (kw : list (string * Z)).
(* a stored parameter: the object and its last re-parameterisation *)
Record sv := mkSV { obj : nv; reparam : setargs }.
Inductive entry := Leaf (v : sv) | Sub (m : list (string * sv)).           (* a nested Pars *)
Definition store := list (string * entry).
Inductive errk := EKeyNotFound | ETypeError.
Inductive outcome := OSet (v : sv) | OErr (e : errk) | ODelegated.

(* ---- which tests does a value satisfy *)
Definition sat_new (x : nv) (t : ntest) : bool :=
  match t, x with
  | NTimePar, NVTimePar _ _ _ => true
  | NFrame, NVFrame _ => true
  | NNumber, NVNum _ => true
  | NList, NVList _ => true
  | NDict, NVDict _ _ => true | NDict, NVNdict _ => true
  | NDist, NVDist _ _ _ => true
  | NFunc, NVFunc _ => true
  | _, _ => false
  end.
Definition sat_old (x : nv) (t : otest) : bool :=
  match t, x with
  | TAtomic, (NVNum _ | NVStr _ | NVList _ | NVNone | NVFrame _ | NVArr _) => true
  | TNdict, NVNdict _ => true
  | TModule, NVModule _ => true
  | TTimePar, NVTimePar _ _ _ => true
  | TDist, NVDist _ _ _ => true
  | TCallable, (NVFunc _ | NVDist _ _ _ | NVModule _ | NVNdict _) => true
  | TDict, (NVDict _ _ | NVNdict _) => true
  | _, _ => false
  end.
Fixpoint first_match {T A} (sat : T -> bool) (tbl : list (T * A)) : option A :=
  match tbl with [] => None | (t, a) :: r => if sat t then Some a else first_match sat r end.

(* ---- what an action does to the stored parameter `old` when `new` is supplied *)
Definition run_act (a : act) (old : sv) (new : nv) : outcome :=
  match a with
  | ASet | AWarnSet => OSet (mkSV new Orig)
  | ASetArg => OSet (mkSV (obj old) (SetArg new))
  | ASetStar => match new with NVList l => OSet (mkSV (obj old) (SetStar l)) | _ => OErr ETypeError end
  | ASetKw => match new with NVDict _ kw => OSet (mkSV (obj old) (SetKw kw)) | _ => OErr ETypeError end
  | AMakeDist => match new with NVDict (Some ty) kw => OSet (mkSV (NVDist (String.eqb ty "bernoulli") None 0) (Made ty kw)) | _ => OErr ETypeError end
  | AReject => OErr ETypeError
  | ARecurse | ANdict | AModule | ATimepar | ADist => ODelegated
  end.
Definition is_beta (x : nv) : bool := match x with NVTimePar _ b _ => b | _ => false end.
Definition is_bern (x : nv) : bool := match x with NVDist b _ _ => b | _ => false end.
Definition update_timepar (old : sv) (new : nv) : outcome :=
  match first_match (sat_new new) timepar_table_gen with
  | Some (APlain a) => run_act a old new
  | Some (AIfBeta a b) => if is_beta (obj old) then run_act a old new else run_act b old new
  | None => run_act timepar_else_gen old new
  end.
Definition dur_mismatch (old : sv) (new : nv) : bool :=
  match obj old, new with
  | NVDist _ (Some olddur) _, NVTimePar newdur _ _ => negb (Bool.eqb olddur newdur)
  | _, _ => false
  end.
Definition update_dist (old : sv) (new : nv) : outcome :=
  match first_match (sat_new new) dist_table_gen with
  | Some (DPlain a) => run_act a old new
  | Some (DIfBernMismatch a b) => if andb (is_bern (obj old)) (negb (is_bern new)) then run_act a old new else run_act b old new
  | Some (DIfDurMismatch a b) => if dur_mismatch old new then run_act a old new else run_act b old new
  | Some (DDict same rej mk) =>
      match new with
      | NVDict None _ => run_act same old new
      | NVDict (Some ty) _ => if andb (is_bern (obj old)) (negb (String.eqb ty "bernoulli")) then run_act rej old new else run_act mk old new
      | _ => run_act same old new          (* an ndict used as a dict: new.get('type') is None *)
      end
  | None => run_act dist_else_gen old new
  end.
(* _update_ndict / _update_module (shape-pinned): an empty container is overwritten; otherwise only a dict is accepted and is handed to the members *)
Definition update_container (old : sv) (new : nv) : outcome :=
  match obj old with
  | NVNdict true => OSet (mkSV new Orig)
  | _ => if sat_new new NDict then ODelegated else OErr ETypeError
  end.
Definition update_leaf (old : sv) (new : nv) : outcome :=
  match first_match (sat_old (obj old)) update_table_gen with
  | Some ATimepar => update_timepar old new
  | Some ADist => update_dist old new
  | Some (ANdict | AModule) => update_container old new
  | Some a => run_act a old new
  | None => run_act update_else_gen old new
  end.

(* ---- Pars.update on a flat store of leaves (a nested Pars is updated by the same function on its own store) *)
Fixpoint lookup {A} (m : list (string * A)) (k : string) : option A :=
  match m with [] => None | (k', v) :: r => if String.eqb k' k then Some v else lookup r k end.
Fixpoint setk {A} (m : list (string * A)) (k : string) (v : A) : list (string * A) :=
  match m with [] => [(k, v)] | (k', v') :: r => if String.eqb k' k then (k, v) :: r else (k', v') :: setk r k v end.
Definition has {A} (m : list (string * A)) (k : string) : bool := match lookup m k with Some _ => true | None => false end.
Inductive result := ROk (m : list (string * sv)) | RErr (e : errk) | RDelegated.
Fixpoint apply_all (m : list (string * sv)) (pars : list (string * nv)) : result :=
  match pars with
  | [] => ROk m
  | (k, new) :: r =>
      match lookup m k with
      | None => apply_all (setk m k (mkSV new Orig)) r                      (* create=True: new key stored directly *)
      | Some old => match update_leaf old new with
                    | OSet v => apply_all (setk m k v) r
                    | OErr e => RErr e
                    | ODelegated => RDelegated
                    end
      end
  end.
Definition pars_update (m : list (string * sv)) (pars : list (string * nv)) (create : bool) : result :=
  match pars with
  | [] => ROk m
  | _ => if andb (negb create) (negb (forallb (fun kv => has m (fst kv)) pars)) then RErr EKeyNotFound else apply_all m pars
  end.

(* "the supplied value is in effect" *)
Definition in_effect (v : sv) (new : nv) : Prop :=
  match reparam v with
  | Orig => obj v = new
  | SetArg x => x = new
  | SetStar l => new = NVList l
  | SetKw kw => exists ty, new = NVDict ty kw
  | Made ty kw => new = NVDict (Some ty) kw
  end.
