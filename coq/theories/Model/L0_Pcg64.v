(* L0: NumPy's PCG64 bit generator (128-bit LCG, XSL-RR output) and the float32 uniform stream,
   exactly, on Z with explicit wrap-around.  Executable definitions only. *)
From SS Require Import Model.Prelude.
Open Scope Z_scope.

Definition M128 : Z := 2 ^ 128.
Definition M64 : Z := 2 ^ 64.
Definition M32 : Z := 2 ^ 32.
Definition pcg_mult : Z := 0x2360ed051fc65da44385df649fccf645.
(* numpy's PCG64.jumped(j) advances by j * this constant (mod 2^128) *)
Definition pcg_jump_stride : Z := 0x9e3779b97f4a7c15f39cc0605cedc835.

(* x mod 2^128, computed by masking (equal to Z.modulo by Z.land_ones; much faster in vm_compute) *)
Definition mod128 (x : Z) : Z := Z.land x (Z.ones 128).

(* affine maps x |-> (A*x + C) mod 2^128 *)
Definition aff := (Z * Z)%type.
Definition aff_apply (f : aff) (x : Z) : Z := mod128 (fst f * x + snd f).
Definition aff_comp (f g : aff) : aff :=        (* f after g *)
  (mod128 (fst f * fst g), mod128 (fst f * snd g + snd f)).
Definition aff_id : aff := (1, 0).
Definition aff_pow (f : aff) (d : Z) : aff :=
  match d with Zpos p => Pos.iter_op aff_comp p f | _ => aff_id end.

Record pcg := mkPcg { p_st : Z; p_inc : Z; p_has32 : bool; p_buf32 : Z }.

Definition lcg (inc : Z) : aff := (mod128 pcg_mult, mod128 inc).
Definition lcg_step (g : pcg) : pcg := mkPcg (aff_apply (lcg (p_inc g)) (p_st g)) (p_inc g) (p_has32 g) (p_buf32 g).

(* advance by d steps (d taken mod 2^128), clearing the 32-bit buffer -- numpy's advance/jumped *)
Definition pcg_advance (d : Z) (g : pcg) : pcg :=
  mkPcg (aff_apply (aff_pow (lcg (p_inc g)) (mod128 d)) (p_st g)) (p_inc g) false 0.
Definition pcg_jumped (j : Z) (g : pcg) : pcg := pcg_advance (j * pcg_jump_stride) g.

Definition rotr64 (x r : Z) : Z :=
  Z.lor (Z.shiftr x r) (Z.land (Z.shiftl x ((64 - r) mod 64)) (M64 - 1)).
Definition output_xsl_rr (st : Z) : Z :=
  let hi := Z.shiftr st 64 in let lo := Z.land st (M64 - 1) in
  rotr64 (Z.lxor hi lo) (Z.shiftr st 122).

(* next 64-bit word: step, then output of the NEW state *)
Definition next64 (g : pcg) : Z * pcg :=
  let g' := lcg_step g in (output_xsl_rr (p_st g'), g').

(* next 32-bit word: low half first, high half buffered *)
Definition next32 (g : pcg) : Z * pcg :=
  if p_has32 g then (p_buf32 g, mkPcg (p_st g) (p_inc g) false 0)
  else let '(w, g') := next64 g in
       (Z.land w (M32 - 1), mkPcg (p_st g') (p_inc g') true (Z.shiftr w 32)).

(* float32 uniform = (uint32 >> 8) / 2^24 ; we keep the 24-bit numerator *)
Definition next_f32 (g : pcg) : Z * pcg := let '(w, g') := next32 g in (Z.shiftr w 8, g').

(* Generator.random(size=n, dtype=float32): n numerators, sequentially *)
Fixpoint rand_f32 (n : nat) (g : pcg) : list Z * pcg :=
  match n with
  | O => ([], g)
  | S k => let '(x, g1) := next_f32 g in let '(xs, g2) := rand_f32 k g1 in (x :: xs, g2)
  end.

(* bit_generator.random_raw(n): n 64-bit words (does not touch the 32-bit buffer) *)
Fixpoint rand_raw64 (n : nat) (g : pcg) : list Z * pcg :=
  match n with
  | O => ([], g)
  | S k => let '(x, g1) := next64 g in let '(xs, g2) := rand_raw64 k g1 in (x :: xs, g2)
  end.

(* closed form: the k-th float32 of the stream from a state with an empty buffer *)
Definition f32_at (g : pcg) (k : Z) : Z :=
  let w := output_xsl_rr (aff_apply (aff_pow (lcg (p_inc g)) (k / 2 + 1)) (p_st g)) in
  Z.shiftr (if Z.even k then Z.land w (M32 - 1) else Z.shiftr w 32) 8.

(* float32 bit pattern of numerator/2^24 (k in [0,2^24)) -- used by multi_random.combine_rvs,
   which reinterprets the float32 as uint32 *)
Definition f32_bits (k : Z) : Z :=
  if k =? 0 then 0 else
  let e := Z.log2 k in                      (* value = k * 2^-24 = 1.m * 2^(e-24) *)
  let mant := (k * 2 ^ (23 - e)) - 2 ^ 23 in   (* 23-bit fraction (exact since k < 2^24) *)
  (e - 24 + 127) * 2 ^ 23 + mant.
