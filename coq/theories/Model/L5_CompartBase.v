From SS Require Import Model.Prelude.
From Coq Require Import String.
(* one item of a disease method's script:
   SelDef name clauses cond : `name = (<flags> & <cond>).uids` -- the agent is a member iff every clause (a disjunction of flags)
                              holds NOW and the non-flag condition `cond` (a time test, identified by its text) holds;
   SetFlag flag val sel     : `self.flag[sel] = val` *)
Inductive sitem := SelDef (name : string) (clauses : list (list string)) (cond : string) | SetFlag (flag : string) (val : bool) (sel : string).
