(* L2: agent arrays (ss.Arr) and the People bookkeeping.  Executable definitions only.
   Uninitialised memory (np.empty) is a distinct constructor G so that reading it is observable. *)
From SS Require Import Model.Prelude Gen.Gen_Arr.

Inductive cell := V (q : Q) | G.

Definition cell_eqb (a b : cell) : bool :=
  match a, b with V x, V y => Qeq_bool x y | G, G => true | _, _ => false end.

Record arr := mkArr { raw : list cell; used : nat; dflt : option Q; nanv : Q }.

Definition len_tot (a : arr) : nat := length (raw a).

Fixpoint set_nth {A} (l : list A) (i : nat) (x : A) : list A :=
  match l, i with
  | [], _ => []
  | _ :: t, O => x :: t
  | h :: t, S k => h :: set_nth t k x
  end.

(* raw[uids] = vals (vals shorter: broadcast of the last given value is not modelled; lengths agree) *)
Fixpoint set_many (l : list cell) (us : list nat) (vs : list Q) : list cell :=
  match us, vs with
  | u :: us', v :: vs' => set_many (set_nth l u (V v)) us' vs'
  | _, _ => l
  end.
Definition set_const (l : list cell) (us : list nat) (v : Q) : list cell :=
  fold_left (fun acc u => set_nth acc u (V v)) us l.

Definition get_raw (l : list cell) (u : nat) : cell := nth u l G.

Definition upd_raw (a : arr) (r : list cell) (u : nat) : arr := mkArr r u (dflt a) (nanv a).

(* Arr.grow: len_used += n; reallocate by max(n_new, len_tot/2) when needed, tail set to nan;
   then set the new uids to the provided values / the constant default / nan *)
Definition arr_grow (a : arr) (new_uids : list nat) (vals : option (list Q)) : arr :=
  let orig := used a in
  let n_new := length new_uids in
  let used' := (orig + n_new)%nat in
  let r1 :=
    if need_realloc_gen orig n_new (len_tot a)
    then let n_grow := n_grow_gen n_new (len_tot a) in
         let r := raw a ++ repeat G n_grow in
         if fill_tail_gen n_grow n_new then set_const r (seq used' (length r - used')) (nanv a) else r
    else raw a in
  let r2 := match vals with
            | Some vs => set_many r1 new_uids vs
            | None => set_const r1 new_uids (match dflt a with Some d => d | None => nanv a end)
            end in
  upd_raw a r2 used'.

Definition arr_values (a : arr) (auids : list nat) : list cell := map (get_raw (raw a)) auids.

(* Arr.asnew(arr): raw = np.empty(shape); raw[auids] = arr *)
Definition asnew (a : arr) (auids : list nat) (vals : list Q) : arr :=
  upd_raw a (set_many (repeat G (len_tot a)) auids vals) (used a).

Definition truthy (c : cell) : option bool := match c with V q => Some (negb (Qeq_bool q 0)) | G => None end.

(* true() / false(): auids[values.astype(bool)] -- None when a garbage cell would be read *)
Fixpoint filter_cells (keep : bool) (auids : list nat) (vals : list cell) : option (list nat) :=
  match auids, vals with
  | u :: us, c :: cs =>
      match truthy c, filter_cells keep us cs with
      | Some b, Some r => Some (if Bool.eqb b keep then u :: r else r)
      | _, _ => None
      end
  | _, _ => Some []
  end.
Definition true_uids (a : arr) (auids : list nat) := filter_cells true auids (arr_values a auids).
Definition false_uids (a : arr) (auids : list nat) := filter_cells false auids (arr_values a auids).

(* comparisons on the active view *)
Inductive cmp := CGt | CLt | CGe | CLe | CEq | CNe.
Definition cmp_q (o : cmp) (x c : Q) : bool :=
  match o with
  | CGt => Qltb c x | CLt => Qltb x c | CGe => Qleb c x | CLe => Qleb x c | CEq => Qeqb x c | CNe => Qneqb x c
  end.
Definition b2q (b : bool) : Q := if b then 1 else 0.
Definition cell_q (c : cell) : Q := match c with V q => q | G => 0 end.
Definition arr_cmp (a : arr) (auids : list nat) (o : cmp) (c : Q) : arr :=
  asnew a auids (map (fun x => b2q (cmp_q o (cell_q x) c)) (arr_values a auids)).

Inductive lop := LAnd | LOr | LXor.
Definition lop_b (o : lop) (x y : bool) : bool := match o with LAnd => andb x y | LOr => orb x y | LXor => xorb x y end.
Definition qtrue (c : cell) : bool := negb (Qeq_bool (cell_q c) 0).
Definition arr_logic (a b : arr) (auids : list nat) (o : lop) : arr :=
  asnew a auids (map (fun xy => b2q (lop_b o (qtrue (fst xy)) (qtrue (snd xy)))) (combine (arr_values a auids) (arr_values b auids))).
Definition arr_not (a : arr) (auids : list nat) : arr :=
  asnew a auids (map (fun x => b2q (negb (qtrue x))) (arr_values a auids)).

(* ---- uid-set algebra (np.intersect1d / union1d / setdiff1d / setxor1d: sorted, unique) *)
Fixpoint insert_u (x : nat) (l : list nat) : list nat :=
  match l with
  | [] => [x]
  | y :: t => if Nat.ltb x y then x :: l else if Nat.eqb x y then l else y :: insert_u x t
  end.
Definition sort_unique (l : list nat) : list nat := fold_right insert_u [] l.
Definition mem (x : nat) (l : list nat) : bool := existsb (Nat.eqb x) l.
Definition uids_and (a b : list nat) : list nat := sort_unique (filter (fun x => mem x b) a).
Definition uids_or (a b : list nat) : list nat := sort_unique (a ++ b).
Definition uids_sub (a b : list nat) : list nat := sort_unique (filter (fun x => negb (mem x b)) a).
Definition uids_xor (a b : list nat) : list nat :=
  sort_unique (filter (fun x => negb (mem x b)) a ++ filter (fun x => negb (mem x a)) b).

(* ---- People *)
Record ppl := mkPpl {
  auids : list nat;            (* active uids *)
  uidarr : arr; slotarr : arr; parent : arr;
  alive : arr; ti_dead : arr;  (* registered core states *)
  others : list arr;           (* every other registered state (core, module, intervention, network) *)
  ti : Z }.

Definition n_uid (p : ppl) : nat := used (uidarr p).
Definition natq (n : nat) : Q := inject_Z (Z.of_nat n).

(* People.grow(n, new_slots): other_vals gives, per other state, the values drawn for the new agents
   when the state's default is a callable / distribution (None: constant default or nan) *)
Definition grow (p : ppl) (n : nat) (new_slots : option (list nat)) (other_vals : list (option (list Q))) : ppl * list nat :=
  if Nat.eqb n 0 then (p, []) else
  let new := seq (n_uid p) n in
  let slots := match new_slots with Some s => s | None => new end in
  let others' := map (fun av => arr_grow (fst av) new (snd av)) (combine (others p) (other_vals ++ repeat None (length (others p)))) in
  (mkPpl (auids p ++ new)
         (arr_grow (uidarr p) new (Some (map natq new)))
         (arr_grow (slotarr p) new (Some (map natq slots)))
         (arr_grow (parent p) new None)
         (arr_grow (alive p) new None) (arr_grow (ti_dead p) new None) others' (ti p), new).

(* request_death: ti_dead[uids] = sim.ti *)
Definition request_death (p : ppl) (us : list nat) : ppl :=
  mkPpl (auids p) (uidarr p) (slotarr p) (parent p) (alive p)
        (upd_raw (ti_dead p) (set_const (raw (ti_dead p)) us (inject_Z (ti p))) (used (ti_dead p))) (others p) (ti p).

(* step_die: (ti_dead <= ti).uids over ACTIVE agents; alive[those] = False; ti_dead[those] = ti (the step at which the death is carried out).  NaN <= x is False. *)
Definition due (p : ppl) (u : nat) : bool :=
  match get_raw (raw (ti_dead p)) u with
  | V q => andb (negb (Qeq_bool q (nanv (ti_dead p)))) (death_due_gen q (inject_Z (ti p)))
  | G => false end.
Definition step_die (p : ppl) : ppl * list nat :=
  let d := filter (due p) (auids p) in
  (mkPpl (auids p) (uidarr p) (slotarr p) (parent p)
         (upd_raw (alive p) (set_const (raw (alive p)) d 0) (used (alive p)))
         (upd_raw (ti_dead p) (set_const (raw (ti_dead p)) d (inject_Z (ti p))) (used (ti_dead p))) (others p) (ti p), d).

(* remove_dead: auids := auids minus dead (dead = ~alive over active agents) *)
Definition is_alive (p : ppl) (u : nat) : bool := qtrue (get_raw (raw (alive p)) u).
Definition remove_dead (p : ppl) : ppl :=
  mkPpl (filter (is_alive p) (auids p)) (uidarr p) (slotarr p) (parent p) (alive p) (ti_dead p) (others p) (ti p).

Definition tick (p : ppl) : ppl :=
  mkPpl (auids p) (uidarr p) (slotarr p) (parent p) (alive p) (ti_dead p) (others p) (ti p + 1).

(* registering a state late: init_vals grows it to the current uid array *)
Definition register (p : ppl) (d : option Q) (nanq : Q) (vals : option (list Q)) : ppl :=
  let a := arr_grow (mkArr [] 0 d nanq) (seq 0 (n_uid p)) vals in
  mkPpl (auids p) (uidarr p) (slotarr p) (parent p) (alive p) (ti_dead p) (others p ++ [a]) (ti p).

Definition new_arr (d : option Q) (nanq : Q) : arr := mkArr [] 0 d nanq.
(* People.__init__ + init_vals for n agents: uid/slot = arange(n), parent = nan(-1), alive default 1, ti_dead nan *)
Definition nanq : Q := (-999999999 # 1).   (* stand-in for NaN in float arrays (never equal to a real value used) *)
Definition init_people (n : nat) : ppl :=
  let ids := seq 0 n in
  mkPpl ids (arr_grow (new_arr None (-1 # 1)) ids (Some (map natq ids)))
        (arr_grow (new_arr None (-1 # 1)) ids (Some (map natq ids)))
        (arr_grow (new_arr None (-1 # 1)) ids None)
        (arr_grow (new_arr (Some 1) 0) ids None) (arr_grow (new_arr None nanq) ids None) [] 0.

(* ---- operations and histories *)
Inductive pop :=
| PGrow (n : nat) (slots : option (list nat)) (vals : list (option (list Q)))
| PRequestDeath (us : list nat)
| PStepDie
| PRemoveDead
| PTick
| PRegister (d : option Q) (nanq : Q) (vals : option (list Q)).

Definition pstep (p : ppl) (o : pop) : ppl :=
  match o with
  | PGrow n s v => fst (grow p n s v)
  | PRequestDeath us => request_death p us
  | PStepDie => fst (step_die p)
  | PRemoveDead => remove_dead p
  | PTick => tick p
  | PRegister d nq v => register p d nq v
  end.
Definition prun (p : ppl) (ops : list pop) : ppl := fold_left pstep ops p.

(* People.update_results: new_deaths[ti] = count_nonzero(ti_dead == ti) over the active agents *)
Definition recorded_new_deaths (p : ppl) : nat :=
  length (filter (fun u => match get_raw (raw (ti_dead p)) u with V q => Qeq_bool q (inject_Z (ti p)) | G => false end) (auids p)).
