"""
Fail-closed translator from a small subset of Python (as found in starsim's kernels) to Gallina.

It is *typed*: every Python name a target may mention is declared by the target (translator/targets.py)
with a Coq term and a type tag; the operator chosen for `+`, `<`, `==` ... follows the operand types:

    'Q'  exact rationals (Python floats are translated to the exact value of their decimal literal)
    'Z'  integers
    'R'  Coq reals (only for formulas that contain exp/log; not executable)
    'B'  bool
    other tags (e.g. 'unit') are opaque: only ==, != (via a declared eqb) and passing around.

Anything not recognised raises Untranslatable, which the caller reports as a broken tie
(never a silent skip).
"""
import ast, os
from fractions import Fraction


class Untranslatable(Exception):
    pass


def fail(node, why):
    ln = getattr(node, 'lineno', '?')
    try:
        src = ast.unparse(node)
    except Exception:
        src = repr(node)
    raise Untranslatable(f'line {ln}: {why}: `{src[:120]}`')


class Module:
    """Parsed Python source file with lookup of functions / methods / module-level assignments."""
    def __init__(self, path):
        self.path = path
        self.src = open(path).read()
        self.tree = ast.parse(self.src)

    def func(self, qual):
        parts = qual.split('.')
        body = self.tree.body
        node = None
        for i, p in enumerate(parts):
            found = None
            for n in body:
                if isinstance(n, (ast.FunctionDef, ast.ClassDef)) and n.name == p:
                    found = n
            if found is None:
                raise Untranslatable(f'{os.path.basename(self.path)}: cannot find `{qual}`')
            node = found
            body = found.body
        if not isinstance(node, ast.FunctionDef):
            raise Untranslatable(f'{os.path.basename(self.path)}: `{qual}` is not a function')
        return node

    def cls(self, name):
        for n in self.tree.body:
            if isinstance(n, ast.ClassDef) and n.name == name:
                return n
        raise Untranslatable(f'{os.path.basename(self.path)}: cannot find class `{name}`')

    def assign(self, name, body=None):
        """Module-level (or class-level) `name = <expr>`; returns the value node."""
        body = self.tree.body if body is None else body
        hit = None
        for n in body:
            if isinstance(n, ast.Assign) and len(n.targets) == 1 and isinstance(n.targets[0], ast.Name) and n.targets[0].id == name:
                hit = n.value
        if hit is None:
            raise Untranslatable(f'{os.path.basename(self.path)}: cannot find assignment `{name} = ...`')
        return hit


def strip_doc(body):
    out = []
    for s in body:
        if isinstance(s, ast.Expr) and isinstance(s.value, ast.Constant) and isinstance(s.value.value, str):
            continue
        out.append(s)
    return out


def dotted(node):
    if isinstance(node, ast.Name): return node.id
    if isinstance(node, ast.Attribute):
        b = dotted(node.value)
        return None if b is None else b + '.' + node.attr
    return None


def qconst(x, ty):
    """Numeric literal in the requested type."""
    if ty == 'Z':
        if isinstance(x, float):
            if x != int(x): raise Untranslatable(f'float literal {x} in integer context')
            x = int(x)
        return f'({x})%Z'
    if ty == 'N':
        if isinstance(x, float) or x < 0: raise Untranslatable(f'literal {x} in nat context')
        return f'({x})%nat'
    fr = Fraction(repr(x)) if isinstance(x, float) else Fraction(x)
    n, d = fr.numerator, fr.denominator
    if ty == 'Q':
        return f'({n} # {d})%Q' if n >= 0 else f'(({n}) # {d})%Q'
    if ty == 'R':
        if d == 1: return f'(IZR ({n}))'
        return f'(IZR ({n}) / IZR {d})%R'
    raise Untranslatable(f'numeric literal {x} in context of type {ty}')


ARITH = {
    'Q': {ast.Add: 'Qplus', ast.Sub: 'Qminus', ast.Mult: 'Qmult', ast.Div: 'Qdiv'},
    'Z': {ast.Add: 'Z.add', ast.Sub: 'Z.sub', ast.Mult: 'Z.mul', ast.FloorDiv: 'Z.div', ast.Mod: 'Z.modulo'},
    'R': {ast.Add: 'Rplus', ast.Sub: 'Rminus', ast.Mult: 'Rmult', ast.Div: 'Rdiv'},
    'N': {ast.Add: 'Nat.add', ast.Mult: 'Nat.mul', ast.FloorDiv: 'Nat.div', ast.Mod: 'Nat.modulo'},
}
CMP = {  # helper names defined in SS.Model.Prelude
    'Q': {ast.Eq: 'Qeqb', ast.NotEq: 'Qneqb', ast.Lt: 'Qltb', ast.LtE: 'Qleb', ast.Gt: 'Qgtb', ast.GtE: 'Qgeb'},
    'Z': {ast.Eq: 'Z.eqb', ast.NotEq: 'Zneqb', ast.Lt: 'Z.ltb', ast.LtE: 'Z.leb', ast.Gt: 'Z.gtb', ast.GtE: 'Z.geb'},
    'R': {ast.Eq: 'Reqb', ast.NotEq: 'Rneqb', ast.Lt: 'Rltb', ast.LtE: 'Rleb', ast.Gt: 'Rgtb', ast.GtE: 'Rgeb'},
    'N': {ast.Eq: 'Nat.eqb', ast.NotEq: 'Nneqb', ast.Lt: 'Nat.ltb', ast.LtE: 'Nat.leb', ast.Gt: 'Ngtb', ast.GtE: 'Ngeb'},
}
NUM = ('Q', 'Z', 'R', 'N')


class Env:
    """names: dotted python name -> (coq term, type)
       calls: python callee dotted name -> handler(tr, node) -> (term, type)
       subs:  python subscripted dotted name -> handler(tr, node) -> (term, type)
       eqb:   type tag -> coq boolean equality
       default_num: type of bare literals when nothing else decides
       exc:   exception class name -> Coq constructor of `err`"""
    def __init__(self, names=None, calls=None, subs=None, eqb=None, default_num='Q', exc=None, ignore_assign=(), none_false=()):
        self.names = dict(names or {})
        self.calls = dict(calls or {})
        self.subs = dict(subs or {})
        self.eqb = dict(eqb or {})
        self.default_num = default_num
        self.exc = dict(exc or {'ValueError': 'EValue', 'TypeError': 'EType', 'KeyError': 'EKey', 'NotImplementedError': 'EOther'})
        self.ignore_assign = set(ignore_assign) | {'errormsg', 'warnmsg'}
        self.none_false = set(none_false)   # names declared never-None: `x is None` translates to false

    def child(self):
        e = Env(self.names, self.calls, self.subs, self.eqb, self.default_num, self.exc, self.ignore_assign, self.none_false)
        return e


class Tr:
    def __init__(self, env):
        self.env = env

    # ---------------------------------------------------------------- expressions
    def expr(self, node, env, want=None):
        """-> (term, type). `want` is a hint for untyped literals."""
        if isinstance(node, ast.Constant):
            v = node.value
            if isinstance(v, bool):
                return ('true' if v else 'false'), 'B'
            if isinstance(v, (int, float)):
                ty = want if want in NUM else env.default_num
                return qconst(v, ty), ty
            if isinstance(v, str):
                if ('str:' + v) in env.names:
                    return env.names['str:' + v]
                fail(node, 'string literal not declared by the target')
            fail(node, 'unsupported constant')
        d = dotted(node)
        if d is not None and d in env.names:
            return env.names[d]
        if isinstance(node, (ast.Name, ast.Attribute)):
            fail(node, 'name not declared by the target')
        if isinstance(node, ast.UnaryOp):
            if isinstance(node.op, ast.Not):
                t, ty = self.expr(node.operand, env)
                if ty != 'B': fail(node, 'not applied to non-boolean')
                return f'(negb {t})', 'B'
            if isinstance(node.op, ast.USub):
                if isinstance(node.operand, ast.Constant) and isinstance(node.operand.value, (int, float)):
                    ty = want if want in NUM else env.default_num
                    return qconst(-node.operand.value, ty), ty
                t, ty = self.expr(node.operand, env, want)
                op = {'Q': 'Qopp', 'Z': 'Z.opp', 'R': 'Ropp'}.get(ty)
                if not op: fail(node, 'negation of non-number')
                return f'({op} {t})', ty
            fail(node, 'unsupported unary operator')
        if isinstance(node, ast.BinOp):
            if isinstance(node.op, ast.Pow):
                return self.power(node, env, want)
            if isinstance(node.op, (ast.BitAnd, ast.BitOr)):
                (a, ta), (b, tb) = self.expr(node.left, env, 'B'), self.expr(node.right, env, 'B')
                if ta != 'B' or tb != 'B': fail(node, f'& / | on non-booleans ({ta},{tb})')
                return f'({"andb" if isinstance(node.op, ast.BitAnd) else "orb"} {a} {b})', 'B'
            lt, rt = self.pair(node.left, node.right, env, want)
            (a, ta), (b, tb) = lt, rt
            if ta != tb or ta not in NUM: fail(node, f'operands of types {ta},{tb}')
            op = ARITH[ta].get(type(node.op))
            if not op: fail(node, f'operator not supported on {ta}')
            return f'({op} {a} {b})', ta
        if isinstance(node, ast.Compare):
            terms = []
            left = node.left
            for op, right in zip(node.ops, node.comparators):
                terms.append(self.compare(left, op, right, env, node))
                left = right
            out = terms[0]
            for t in terms[1:]:
                out = f'(andb {out} {t})'
            return out, 'B'
        if isinstance(node, ast.BoolOp):
            f = 'andb' if isinstance(node.op, ast.And) else 'orb'
            ts = []
            for v in node.values:
                t, ty = self.expr(v, env)
                if ty != 'B': fail(v, 'boolean operator on non-boolean')
                ts.append(t)
            out = ts[0]
            for t in ts[1:]:
                out = f'({f} {out} {t})'
            return out, 'B'
        if isinstance(node, ast.IfExp):
            c, tc = self.expr(node.test, env)
            if tc != 'B': fail(node, 'non-boolean condition')
            (a, ta), (b, tb) = self.pair(node.body, node.orelse, env, want)
            if ta != tb: fail(node, 'branches of different types')
            return f'(if {c} then {a} else {b})', ta
        if isinstance(node, ast.Call):
            d = dotted(node.func)
            if d in env.calls:
                return env.calls[d](self, node, env, want)
            fail(node, 'call not declared by the target')
        if isinstance(node, ast.Subscript):
            d = dotted(node.value)
            if d in env.subs:
                return env.subs[d](self, node, env, want)
            fail(node, 'subscript not declared by the target')
        fail(node, f'unsupported expression {type(node).__name__}')

    def is_lit(self, n):
        return (isinstance(n, ast.Constant) and isinstance(n.value, (int, float)) and not isinstance(n.value, bool)) or \
               (isinstance(n, ast.UnaryOp) and isinstance(n.op, ast.USub) and self.is_lit(n.operand))

    def pair(self, l, r, env, want=None):
        """Translate two operands that must agree in type; literals adopt the other side's type."""
        if self.is_lit(l) and not self.is_lit(r):
            b = self.expr(r, env, want)
            a = self.expr(l, env, b[1])
        else:
            a = self.expr(l, env, want)
            b = self.expr(r, env, a[1])
        return a, b

    def compare(self, left, op, right, env, node):
        if isinstance(op, (ast.Is, ast.IsNot)):
            if isinstance(right, ast.Constant) and right.value is None:
                d = dotted(left)
                if d in env.none_false:
                    return 'false' if isinstance(op, ast.Is) else 'true'
                if d in env.names and 'None' in env.names and env.names[d][1] == env.names['None'][1] and env.names[d][1] in env.eqb:
                    r = f'({env.eqb[env.names[d][1]]} {env.names[d][0]} {env.names["None"][0]})'
                    return r if isinstance(op, ast.Is) else f'(negb {r})'
                if d in env.names and env.names[d][1].startswith('option'):
                    t = env.names[d][0]
                    r = f'(match {t} with None => true | Some _ => false end)'
                    return r if isinstance(op, ast.Is) else f'(negb {r})'
            fail(node, '`is` comparison not understood')
        (a, ta), (b, tb) = self.pair(left, right, env)
        if ta != tb: fail(node, f'comparison of {ta} with {tb}')
        if ta in NUM:
            f = CMP[ta].get(type(op))
            if not f: fail(node, 'comparison operator')
            return f'({f} {a} {b})'
        if ta in env.eqb and isinstance(op, (ast.Eq, ast.NotEq)):
            r = f'({env.eqb[ta]} {a} {b})'
            return r if isinstance(op, ast.Eq) else f'(negb {r})'
        fail(node, f'comparison on type {ta}')

    def power(self, node, env, want):
        a, ta = self.expr(node.left, env, want)
        if isinstance(node.right, ast.Constant) and isinstance(node.right.value, int) and node.right.value >= 0:
            n = node.right.value
            if ta == 'Q': return f'(Qpower {a} {n})', 'Q'
            if ta == 'Z': return f'(Z.pow {a} {n})', 'Z'
            if ta == 'R': return f'(pow {a} {n})', 'R'
        b, tb = self.expr(node.right, env, ta)
        if ta == 'R' and tb == 'R':
            return f'(Rpower {a} {b})', 'R'
        fail(node, 'power with non-literal exponent outside R')

    # ----------------------------------------------------------------- statements
    def block(self, stmts, env, k):
        """Translate a statement list to a Coq term of type `res T`.  k(env) gives the term for
        falling off the end of the block (continuation is duplicated into branches)."""
        stmts = strip_doc(stmts)
        if not stmts:
            return k(env)
        s, rest = stmts[0], stmts[1:]
        nxt = lambda e: self.block(rest, e, k)
        if isinstance(s, ast.Return):
            if s.value is None: fail(s, 'bare return')
            t, ty = self.expr(s.value, env, self.ret_type)
            if ty != self.ret_type: fail(s, f'returns {ty}, expected {self.ret_type}')
            return f'(Ok {t})'
        if isinstance(s, ast.Raise):
            exc = s.exc
            name = dotted(exc.func) if isinstance(exc, ast.Call) else dotted(exc)
            name = (name or '').split('.')[-1]
            if name not in env.exc: fail(s, 'unknown exception class')
            return f'(Err {env.exc[name]})'
        if isinstance(s, ast.Assign) or isinstance(s, ast.AugAssign):
            if isinstance(s, ast.AugAssign):
                tgt = s.target
                val = ast.BinOp(left=s.target, op=s.op, right=s.value)
                ast.copy_location(val, s)
            else:
                if len(s.targets) != 1: fail(s, 'multiple assignment')
                tgt, val = s.targets[0], s.value
            d = dotted(tgt)
            if d is None: fail(s, 'assignment target')
            if d in env.ignore_assign:
                return nxt(env)
            old = env.names.get(d)
            t, ty = self.expr(val, env, old[1] if old else None)
            v = self.fresh(d)
            e2 = env.child()
            if ty.startswith('res:'):
                e2.names[d] = (v, ty[4:])
                return f'(bind {t} (fun {v} =>\n {nxt(e2)}))'
            e2.names[d] = (v, ty)
            body = f'(let {v} := {t} in\n {nxt(e2)})'
            # Python raises ZeroDivisionError where Coq's division is total: guard every non-literal rational / integer denominator
            if ty in ('Q', 'Z'):
                for dn in [n.right for n in ast.walk(val) if isinstance(n, ast.BinOp) and isinstance(n.op, (ast.Div, ast.FloorDiv, ast.Mod)) and not self.is_lit(n.right)]:
                    try: dt_, dty = self.expr(dn, env, ty)
                    except Untranslatable: continue
                    if dty == 'Q': body = f'(if Qeq_bool {dt_} 0 then (Err EZeroDiv) else\n {body})'
                    elif dty == 'Z': body = f'(if Z.eqb {dt_} 0 then (Err EZeroDiv) else\n {body})'
            return body
        if isinstance(s, ast.If):
            c, tc = self.expr(s.test, env)
            if tc != 'B': fail(s, 'non-boolean condition')
            if c == 'true': return self.block(s.body, env, nxt)     # specialised flag: prune
            if c == 'false': return self.block(s.orelse, env, nxt)
            a = self.block(s.body, env, nxt)
            b = self.block(s.orelse, env, nxt)
            return f'(if {c}\n then {a}\n else {b})'
        if isinstance(s, ast.Pass):
            return nxt(env)
        if isinstance(s, ast.Expr):
            fail(s, 'expression statement')
        fail(s, f'unsupported statement {type(s).__name__}')

    _n = 0
    def fresh(self, d):
        Tr._n += 1
        return d.replace('.', '_') + f'_{Tr._n}'

    def function(self, fnode, coq_name, params, ret_type, env=None, ret_expr=None, binders=None):
        """params: list of (python name, coq binder name, type tag, coq type).
        ret_expr: python dotted name whose value is returned when the body falls off the end."""
        env = (env or self.env).child()
        Tr._n = 0
        self.ret_type = ret_type
        bs = []
        for py, cq, ty, cty in params:
            env.names[py] = (cq, ty)
            bs.append(f'({cq} : {cty})')
        if binders: bs = binders + bs
        def k(e):
            if ret_expr is None:
                raise Untranslatable(f'{fnode.name}: control falls off the end of the function')
            if ret_expr not in e.names:
                raise Untranslatable(f'{fnode.name}: `{ret_expr}` not assigned on some path')
            t, ty = e.names[ret_expr]
            if ty != ret_type: raise Untranslatable(f'{fnode.name}: falls off with {ty}')
            return f'(Ok {t})'
        body = self.block(fnode.body, env, k)
        cret = {'Q': 'Q', 'Z': 'Z', 'R': 'R', 'B': 'bool', 'N': 'nat'}.get(ret_type, ret_type)
        return f'Definition {coq_name} {" ".join(bs)} : res {cret} :=\n {body}.\n'


def kwcall(fname_coq, order, ret_type, defaults=None, types=None):
    """Handler for a call with keyword/positional args to a translated function:
       order = python parameter names in Coq argument order."""
    defaults = defaults or {}
    types = types or {}
    def h(tr, node, env, want):
        given = {}
        for i, a in enumerate(node.args):
            if i >= len(order): fail(node, 'too many positional arguments')
            given[order[i]] = a
        for kw in node.keywords:
            if kw.arg not in order: fail(node, f'unexpected keyword {kw.arg}')
            if kw.arg in given: fail(node, f'duplicate argument {kw.arg}')
            given[kw.arg] = kw.value
        terms = []
        for p in order:
            if p in given:
                t, ty = tr.expr(given[p], env, types.get(p))
                if p in types and ty != types[p]: fail(node, f'argument {p} has type {ty}, expected {types[p]}')
                terms.append(t)
            elif p in defaults:
                terms.append(defaults[p])
            else:
                fail(node, f'missing argument {p}')
        return f'({fname_coq} {" ".join(terms)})', ret_type
    return h
