import sys, json
pid = sys.argv[1]
n = int(sys.argv[2]) if len(sys.argv) > 2 else 2
for l in open('/verif/properties.jsonl'):
    p = json.loads(l)
    if p['id'] == pid: break
print(f"""You are helping test a verification tool by producing realistic *bugs* (mutations) for the open-source Python project Starsim (agent-based epidemic simulation framework, version 2.2.0).

You have your own scratch git worktree of the project at /tmp/wt_{pid} (a git worktree; work ONLY there; never touch /repo or /verif or any other directory except /tmp/wt_{pid} and new files under /tmp/mut_{pid}/).
Do NOT use `git stash` (the stash is shared with other worktrees of the same repository); to compare with the clean tree use `git diff > file`, `git checkout -- .`, `git apply file`.
Run Python as:  cd /tmp/wt_{pid} && PYTHONPATH=/tmp/wt_{pid} /venv/bin/python ...   (numpy, scipy, sciris, pandas are installed; there is no network).
The project's test-suite is run with:  cd /tmp/wt_{pid} && PYTHONPATH=/tmp/wt_{pid} /venv/bin/python -m pytest -q -p no:cacheprovider --timeout=900 -x tests  (takes ~2 minutes; test_loop_plotting is known to fail already, ignore it; ignore any 'conda' warning lines).

Here is a semantic property that Starsim is supposed to satisfy:

PROPERTY {p['id']}: {p['title']}
{p['statement']}
Quantified over: {p['quantifier']['text']}
Relevant code: {', '.join(p['anchors']['files'])}

YOUR TASK: produce {n} DIFFERENT, independent source changes to starsim (each a small patch to files under /tmp/wt_{pid}/starsim/) such that each change:
  1. BREAKS the property above (for some input / configuration / history),
  2. still imports and runs, and the EXISTING test-suite still passes with it (apart from the already-failing test_loop_plotting) -- you must actually run the suite and confirm,
  3. is subtle: it should need something specific to manifest -- an unusual input, a particular multi-step sequence of operations, a boundary value, a particular configuration, or two cooperating sites that each look fine alone -- NOT something any ordinary use would expose at once. Think of realistic mistakes a maintainer could make in a refactor or 'optimisation' (off-by-one, wrong branch for a rare case, stale cache, wrong operand in a rarely used path, dropped reset, etc.). PREFER code that is NOT the most obvious place for this property: code outside (or at the edges of) the files listed as 'Relevant code' that nevertheless affects the property -- e.g. sim assembly and module registration, demographics, connectors, interventions/products, utilities, results, people/array helpers, copy/pickle support, rarely used options and argument forms of the public API -- or an interaction between two features (different module time steps, population scaling, births and deaths together, several diseases, several networks).
  4. comes with a small standalone demonstration program demo.py (using only the public starsim API) that exits 0 / prints PASS on the ORIGINAL code and exits non-zero / prints FAIL with the change applied, showing the property being violated.

For each change k = 1..{n}: start from a clean tree (git -C /tmp/wt_{pid} checkout -- .), make the edit, verify (run demo -> FAIL, run test-suite -> passes), save `git -C /tmp/wt_{pid} diff > /tmp/mut_{pid}/m<k>/patch.diff`, save the demonstration as /tmp/mut_{pid}/m<k>/demo.py (it must take the source tree from PYTHONPATH, not a hard-coded path), and write /tmp/mut_{pid}/m<k>/meta.json with keys: property, summary (what the change does), needs (what specific input/sequence/configuration is needed for the violation to manifest), ran (the commands you ran and their outcomes). Then revert the tree (git checkout -- .) and verify demo.py passes on the clean tree before starting the next one.
At the end leave the worktree clean. Report briefly: for each mutation the one-line summary and confirmation that the suite passed and the demo fails with / passes without the change.
Do not look at or use anything under /verif. Do not commit anything.""")
