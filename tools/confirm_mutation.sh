#!/bin/bash
# usage: confirm_mutation.sh <mutdir> <worktree>  -- confirms: demo passes clean, fails with patch, suite passes with patch
mut=$1; wt=$2
out=$mut/confirm.txt; : > $out
cd $wt && git checkout -q -- . && git status --short | grep -q . && { echo "worktree dirty" >> $out; exit 2; }
run() { (cd $wt && PYTHONWARNINGS=ignore PYTHONPATH=$wt /venv/bin/python "$@"); }
run $mut/demo.py > $mut/demo_clean.log 2>&1; echo "demo on clean tree: exit $?" >> $out
git -C $wt apply $mut/patch.diff || { echo "patch does not apply" >> $out; exit 2; }
run $mut/demo.py > $mut/demo_mut.log 2>&1; echo "demo with patch: exit $?" >> $out
(cd $wt && PYTHONWARNINGS=ignore PYTHONPATH=$wt /venv/bin/python -m pytest -q -p no:cacheprovider --timeout=900 tests 2>&1 | tail -3) > $mut/suite.log
echo "suite with patch: $(grep -E 'passed|failed' $mut/suite.log | tail -1)" >> $out
git -C $wt checkout -q -- .
cat $out
