#!/bin/bash
# apply every kept seeded change to /repo in turn, run the check of its property, report the verdict, always revert
cd /verif
git -C /repo status --short | grep -q . && { echo "/repo not clean"; exit 2; }
for d in seeded/*/; do
  name=$(basename $d); pid=${name%%-*}; alt=$(jq -r '.check_with // empty' /verif/$d/meta.json); [ -n "$alt" ] && pid=$alt
  if ! git -C /repo apply --check /verif/$d/patch.diff 2>/dev/null; then echo "$name: PATCH-DOES-NOT-APPLY"; continue; fi
  git -C /repo apply /verif/$d/patch.diff
  out=$(./check $pid 2>&1)
  git -C /repo checkout -- .
  if echo "$out" | grep -q "^VIOLATION.*no-failing-input-found" && ! echo "$out" | grep "^VIOLATION" | grep -qv "no-failing-input-found"; then v="TIE-ONLY (no failing input)"
  elif echo "$out" | grep -q "^VIOLATION"; then v="DETECTED with failing input"
  else v="MISSED"; fi
  echo "$name: $v"
done
