import sys, json
pid = sys.argv[1]
for l in open('/verif/properties.jsonl'):
    p = json.loads(l)
    if p['id'] == pid: break
kf = json.load(open('/verif/known_findings.json'))['findings']
known = [f for f in kf if f['property'] == pid]
kn = '\n'.join(f"  - ({f['status']}) {f['what'][:420]}" for f in known) or '  (none so far)'
print(f"""You are a careful software tester looking for GENUINE DEFECTS in the open-source Python project Starsim (agent-based epidemic simulation framework, version 2.2.0 plus a few bug-fix commits).

A read-only copy of the source tree is at /tmp/hunt_{pid} (do not edit it; never touch /repo or /verif; write new files only under /tmp/huntout_{pid}/).
Run Python as:  cd /tmp/huntout_{pid} && PYTHONWARNINGS=ignore PYTHONPATH=/tmp/hunt_{pid} /venv/bin/python your_script.py   (numpy, scipy, sciris, pandas, networkx are installed; there is no network). Do NOT use git stash or any git command.

Here is a semantic property that Starsim is supposed to satisfy:

PROPERTY {p['id']}: {p['title']}
{p['statement']}
Quantified over: {p['quantifier']['text']}
Relevant code: {', '.join(p['anchors']['files'])}

YOUR TASK: find inputs / configurations / operation sequences, using only the public API in ways a reasonable user could, on which the UNMODIFIED code violates this property. Think adversarially about what the property quantifies over: unusual but legal parameter forms, modules on their own time step or unit next to modules on other steps, several modules of the same class, population scaling, births and deaths together, copying/saving, rarely used options, boundary values, and interactions between two features that each work alone. Read the code to find suspicious places, then CONFIRM each suspicion by running it.

Already known (do NOT report these again; look for DIFFERENT failures):
{kn}

For each distinct genuine violation you confirm (at most 3; quality over quantity), write /tmp/huntout_{pid}/v<k>/demo.py -- a small standalone program that exits 1 and prints what went wrong when the violation manifests (it must on the unmodified code), taking the source tree from PYTHONPATH -- and /tmp/huntout_{pid}/v<k>/report.json with keys: property, summary (what fails, in one paragraph), input (the specific configuration / call sequence), observed, expected (and why the property demands it), root_cause (file and lines), is_documented_limitation (true if the code or docs explicitly say this is unsupported). Be honest: if something is an explicitly unsupported use, a matter of floating-point rounding within 1e-9, or arguably outside the property statement, say so or leave it out. If after a serious effort you find nothing new, say so plainly -- that is a useful answer.
Report briefly at the end: one line per violation found (or 'none found') and which areas you examined.""")
