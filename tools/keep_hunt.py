#!/usr/bin/env python3
"""keep_hunt.py <prop> <huntdir(vK)> <slug> <status open|fixed> [commit] [--thorough]: store a confirmed genuine defect found by a bug-hunt agent as hunted/<prop>-<slug>/ and list it in known_findings.json"""
import sys, os, json, shutil
args = [a for a in sys.argv[1:] if not a.startswith('--')]
prop, src, slug, status = args[:4]; commit = args[4] if len(args) > 4 else None
dst = f'/verif/hunted/{prop}-{slug}'; os.makedirs(dst, exist_ok=True)
shutil.copy(f'{src}/demo.py', dst); shutil.copy(f'{src}/report.json', dst)
rep = json.load(open(f'{src}/report.json'))
p = '/verif/known_findings.json'; k = json.load(open(p))
k['findings'] = [f for f in k['findings'] if f.get('id') != slug]
what = (rep.get('summary') or '')[:900]
if status == 'fixed': what = f'fixed: property={prop} {commit} ' + what
e = dict(property=prop, id=slug, key=slug, status=status, what=what, witness=dict(input=str(rep.get('input'))[:600], observed=str(rep.get('observed'))[:400], root_cause=str(rep.get('root_cause'))[:300]),
         demo=f'hunted/{prop}-{slug}/demo.py', source='bug-hunt sub-agent given the property text and the list of findings already known; demo confirmed by me on /repo')
if commit: e['commit'] = commit
if '--thorough' in sys.argv: e['demo_tier'] = 'thorough'
k['findings'].append(e); json.dump(k, open(p, 'w'), indent=1)
print('kept', dst, status)
