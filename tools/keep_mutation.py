#!/usr/bin/env python3
"""keep_mutation.py <prop> <mutdir> <name> <detected_by...>: store a confirmed seeded mutation under /verif/seeded/<prop>-<name>/"""
import sys, os, json, shutil
prop, mut, name = sys.argv[1:4]
detected = ' '.join(sys.argv[4:])
dst = f'/verif/seeded/{prop}-{name}'
os.makedirs(dst, exist_ok=True)
shutil.copy(f'{mut}/patch.diff', dst); shutil.copy(f'{mut}/demo.py', dst)
meta = json.load(open(f'{mut}/meta.json'))
conf = open(f'{mut}/confirm.txt').read().strip().splitlines() if os.path.exists(f'{mut}/confirm.txt') else []
out = dict(property=prop, summary=meta.get('summary'), needs=meta.get('needs'), source='independent sub-agent given only the property text and a scratch worktree',
           confirmed_by_me=conf, what_i_ran=['tools/confirm_mutation.sh (demo on clean tree, demo with patch, full test-suite with patch, in a scratch worktree)',
                                            f'tools/try_mutation.sh {dst}/patch.diff {prop} (apply to /repo, run the check, revert)'],
           detected_by=detected)
json.dump(out, open(f'{dst}/meta.json', 'w'), indent=1)
print('kept', dst)
