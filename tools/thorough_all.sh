#!/bin/bash
# run every thorough tier on the clean tree, N at a time; print exit codes and durations
cd /verif
git -C /repo status --short | grep -q . && { echo "/repo not clean"; exit 2; }
ids=${@:-$(python3 -c "import json; print(' '.join(c['property_id'] for c in json.load(open('MANIFEST.json'))['checks']))")}
echo $ids | tr ' ' '\n' | xargs -P 3 -I{} sh -c 's=$(date +%s); ./check {} --tier thorough > .work/thorough_{}.log 2>&1; rc=$?; e=$(date +%s); echo "{} exit=$rc $((e-s))s $(tail -1 .work/thorough_{}.log | cut -c1-120)"'
