#!/bin/bash
# usage: regress_parallel.sh [lanes] [name-filter]: every kept seeded change against the current checks, in <lanes> scratch copies of
# /verif + worktrees of /repo under /tmp (removed at the end); /repo and /verif/evidence are not touched.  Report: /verif/.regress.log
lanes=${1:-4}; filt=${2:-.}
cd /verif
ls -d seeded/*/ | grep -E "$filt" > /tmp/rg_all.txt
: > /verif/.regress.log
for k in $(seq 1 $lanes); do
  (
    root=/tmp/rg$k; rm -rf $root; mkdir -p $root
    rsync -a --exclude .git --exclude .work --exclude replays --exclude '.regress*' /verif/ $root/verif/
    git -C /repo worktree add -q --detach $root/repo HEAD || exit 2
    awk -v k=$k -v n=$lanes 'NR % n == k % n' /tmp/rg_all.txt | while read d; do
      name=$(basename $d); pid=${name%%-*}; alt=$(jq -r '.check_with // empty' /verif/$d/meta.json); [ -n "$alt" ] && pid=$alt
      if ! git -C $root/repo apply --check /verif/$d/patch.diff 2>/dev/null; then echo "$name: PATCH-DOES-NOT-APPLY" >> /verif/.regress.log; continue; fi
      git -C $root/repo apply /verif/$d/patch.diff
      out=$(VERIF_REPO=$root/repo $root/verif/check $pid 2>&1)
      git -C $root/repo checkout -- .
      if echo "$out" | grep -q "^VIOLATION.*no-failing-input-found" && ! echo "$out" | grep "^VIOLATION" | grep -qv "no-failing-input-found"; then v="TIE-ONLY (no failing input)"
      elif echo "$out" | grep -q "^VIOLATION"; then v="DETECTED with failing input"
      else v="MISSED"; fi
      echo "$name: $v" >> /verif/.regress.log
    done
    git -C /repo worktree remove --force $root/repo; rm -rf $root
  ) &
done
wait
git -C /repo worktree prune
sort /verif/.regress.log -o /verif/.regress.log
echo "$(grep -c DETECTED /verif/.regress.log) detected, $(grep -c TIE-ONLY /verif/.regress.log) tie-only, $(grep -c MISSED /verif/.regress.log) missed, of $(wc -l < /tmp/rg_all.txt)"
