#!/bin/bash
# run every claimed check on the clean tree under several seeds; print the ones that do not end with OK
cd /verif
git -C /repo status --short | grep -q . && { echo "/repo not clean"; exit 2; }
ids=$(python3 -c "import json; print(' '.join(c['property_id'] for c in json.load(open('MANIFEST.json'))['checks']))")
for s in "$@"; do
  echo "== seed $s"
  echo $ids | tr ' ' '\n' | xargs -P 4 -I{} sh -c "VERIF_SEED=$s ./check {} > .work/sweep_${s}_{}.log 2>&1; tail -1 .work/sweep_${s}_{}.log | grep -q '^OK ' || echo '{} NOT OK (seed $s)'"
done
