#!/bin/bash
# usage: tools/try_mutation.sh <patch.diff> C03 [C04 ...]   -- applies the patch to /repo, runs the checks, always reverts
patch=$1; shift
cd /repo && git status --short | grep -q . && { echo "/repo not clean"; exit 2; }
git -C /repo apply "$patch" || { echo "patch does not apply"; exit 2; }
for p in "$@"; do
  echo "=== $p with $(basename $(dirname $patch))"
  (cd /verif && ./check $p 2>&1 | grep -E "BROKEN|VIOLATION|violation on|^OK |KNOWN-FINDING" | cut -c1-260 | head -${MAXLINES:-8})
done
git -C /repo checkout -- . && git -C /repo status --short
