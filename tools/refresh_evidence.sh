#!/bin/bash
# re-run every claimed check on the current (clean) /repo tree, in parallel, and validate the evidence files
cd /verif
git -C /repo status --short | grep -q . && { echo "/repo not clean"; exit 2; }
ids=$(python3 -c "import json; print(' '.join(c['property_id'] for c in json.load(open('MANIFEST.json'))['checks']))")
echo $ids | tr ' ' '\n' | xargs -P 4 -I{} sh -c './check {} > .work/refresh_{}.log 2>&1; echo "{} exit=$?"'
python3-vt - <<'PY'
import json, jsonschema, glob
sch = json.load(open('/root/.vp/EVIDENCE.schema.json'))
man = json.load(open('/verif/MANIFEST.json'))
jsonschema.validate(man, json.load(open('/root/.vp/MANIFEST.schema.json')))
for c in man['checks']:
    e = json.load(open(c['evidence_file']))
    jsonschema.validate(e, sch)
    cov = e['coverage']
    assert cov['discharged'] == cov['obligations'] >= 1, (c['property_id'], cov['discharged'], cov['obligations'])
    assert e['violations'] == 0, c['property_id']
print('all evidence valid')
PY
