#!/usr/bin/env python3
"""Regenerates /verif/MANIFEST.json from the table below (one row per property)."""
import json, os
HERE = os.path.dirname(os.path.dirname(os.path.abspath(__file__)))
props = [json.loads(l) for l in open(os.path.join(HERE, 'properties.jsonl'))]

CLAIMED = {
 'C06': dict(
   text='25 Coq theorems (reciprocity, transitivity, physical preservation for dur/rate, round trip and composition of .to(), '
        'compounding/range/monotonicity/rejection for time_prob and rate_prob over R) about definitions REGENERATED from starsim/time.py on '
        'every run; the hand-written TimePar model is run inside Coq against ss.dur/ss.rate/ss.time_ratio on the same inputs. Crude rates (Births/Deaths/Pregnancy cbr, cmr): count over the counting module`s own step length recovers the rate; the code divides by the sim`s step (crude_rate_reported, replayed in Coq on real runs), off by mdt/sdt: refuted, listed finding.',
   note='Trusted: Coq kernel, translator, harness; R theorems use the standard real-number axioms (sig_forall_dec, sig_not_dec, classic, '
        'functional_extensionality_dep). Not verified: binary64 rounding (tolerance 1e-12), array branches of the probability classes '
        '(shape-pinned + pointwise comparison with the scalar branch).',
   technique='Coq theorems over generated Gallina (translator from time.py) + in-Coq differential evaluation of the model',
   design='5 C06'),
 'C03': dict(
   text='Coq theorems over all operation histories of the Dist state machine on the exact PCG64 stream: prefix stability of the uniform stream, '
        'pointwise-by-slot value of every agent draw (hence independence from other agents, order, repeats, population size), and a refinement of '
        'whole histories to an abstract machine in which a draw is a function of (initial state, jump index, slot) only. Formulas regenerated from '
        'distributions.py; the model is run in Coq bit-exactly against real ss.random/ss.bernoulli histories; the property itself is evaluated on all 16 families.',
   note='Trusted: Coq kernel, translator (expression targets + shape pins on Dist.rvs/jump/reset), harness. NumPy non-uniform samplers and SciPy ppf are oracles '
        '(covered only by the implementation-side evaluation). Theorems closed under the global context.',
   technique='Coq refinement proof of the Dist/PCG64 state machine + bit-exact in-Coq differential evaluation',
   design='5 C03'),
 'C04': dict(
   text='Coq theorems: along any history of non-forced, non-resetting operations every draw starts from the clean state of its jump index and the jump '
        'indices are strictly increasing (no bound on calls per step; stride overrun ends in a refusal); refusal theorems (uninitialised, strict second draw, '
        'backward jump); seed check sound and complete; and distinct jump indices below 2^64 give DISTINCT generator states -- proved outright: the 128-bit LCG of '
        'PCG64 (multiplier = 1 mod 4, odd increment) has full period modulo 2^128 (Hull-Dobell by lifting the exponent, Proofs/P_Pcg.v) and the jump stride is odd. '
        'Whole real runs are logged draw by draw and every start state is recomputed exactly by the model in Coq; the premises (PCG64, odd increment, state < 2^128) '
        'are checked on every real generator.',
   note='Trusted: Coq kernel, translator, run-time wrapper on Dist.rvs/Dist.jump installed by the harness. Cross-distribution distinctness rests on NumPy '
        'SeedSequence (checked on the logged states, not proved). Closed under the global context.',
   technique='Coq invariant proof over operation histories + full-period (Hull-Dobell) proof for the PCG64 LCG + exact recomputation of logged generator states in Coq',
   design='5 C04'),
 'C08': dict(
   text='Coq theorems for every module set and every family of per-module time vectors: the plan is a permutation of functions x own time points '
        '(each method exactly once per own time point, nothing else), sorted by the generated step-order key, phase order within an instant, time order '
        'across instants under the gap hypothesis forced by the float key (refutation witness without it), the CLOCK theorem (at the row scheduled for '
        'the k-th own time point the module clock reads k) and final clocks. Phase list / chain order / sort key / eps regenerated from loop.py, sim.py, '
        'settings.py. The model plan and clock trace are compared row by row with sim.loop.plan and a single-stepped real run.',
   note='Trusted: Coq kernel, translator (collect_funcs parsed into phases_gen; shape pins on make_plan/__iadd__/finish_step/Loop.run/Sim.run), harness. '
        'pandas sort_values is modelled by a stable insertion sort (differences only for equal keys). All theorems closed under the global context.',
   technique='Coq proofs about the sorted-cross-product plan (permutation, sortedness, clock counting argument) + in-Coq differential evaluation',
   design='5 C08'),
 'C09': dict(
   text='Coq theorems for an arbitrary step function: resume composition for any number of pauses at any boundaries, independence of copy and original, '
        'AlreadyRun guards, scaling applied at most once over any sequence of run/finalize calls; stop-index semantics of run(until) compared with the '
        'implementation. The proviso of the theorems (restored state = taken state) is tested on the real object graph by a boundary sweep x '
        '{none, deepcopy, pickle, save/load} x single/double pauses with exact comparison to an uninterrupted twin. A shrunken snapshot written on the side (save(shrink=True)) and the default save of the finished run must leave the live simulation alone; waiting lists come back from every restore in the same order. Two handles sharing the results but not the completion flags finalise twice (refuted in Coq, listed finding).',
   note='Trusted: Coq kernel, translator pins on Loop.run/Sim.run/finalize, harness. Fidelity of deepcopy/pickle/save-load of the Python object graph is NOT proved '
        '(it is what the sweep tests); configurations using the process-global NumPy generator (Births) are excluded here and covered by C01.',
   technique='Coq resume-algebra proof over an abstract step function + exhaustive boundary/restore-mode sweep against the real sim',
   design='5 C09'),
 'C10': dict(
   text='Coq theorems over ALL histories of births (arbitrary slots), death requests, death resolution, removal, time steps and late state registration: '
        'dense never-reused identifiers, alignment of every registered array with the id space across reallocation boundaries, duplicate-free active set, '
        'growth preserves old values and applies defaults, death permanence, same-step / next-step execution of death requests, deaths balance; the '
        'recorded flow of deaths (count of ti_dead == ti over the active agents) is exactly the deaths carried out in the step, hence alive before = alive after + recorded deaths for a step starting with living agents (the late-request accounting gap found earlier was repaired in /repo, b356480). Growth arithmetic and the death-due comparison are regenerated from arrays.py/people.py; '
        'op sequences on a real People are compared with the model in Coq (outputs + full snapshot), and every step of real runs is probed.',
   note='Trusted: Coq kernel, translator (expression targets + shape pins), harness. NaN is modelled by a sentinel rational (nan_free hypothesis in the timing theorems). '
        'Only the 5 attached arrays + core arrays are snapshotted in the op-level tie; all registered states are checked for alignment by the run-level probe.',
   technique='Coq invariant proof over operation histories of the People model + in-Coq differential evaluation + run-level probe',
   design='5 C10'),
 'C11': dict(
   text='Coq theorems: refinement of agent arrays to a uid-indexed map restricted to the active list (writes by uid, active view, derived arrays define exactly '
        'the active cells, comparison uids = filter, true/false partition, ~ swaps, uid-set algebra = set operations with sorted duplicate-free results, growth); '
        'the integer-index clause is refuted by a witness (raw indexing). Array-heavy op sequences with all key kinds on real FloatArr/BoolArr/State are compared '
        'with the model in Coq; a dict-based reference map is replayed next to the real arrays.',
   note='Trusted: Coq kernel, translator shape pins on _convert_key and the dunders, harness. Uninitialised memory is a distinct model constructor (G); '
        'float32 storage is avoided in the tie by using dyadic values.',
   technique='Coq refinement proof (array -> finite map) + in-Coq differential evaluation of operation sequences',
   design='5 C11'),
 'C12': dict(
   text='Coq theorems over arbitrary edge lists, flags, factors and random numbers: every new infection comes from an edge of that network in a direction with '
        'non-zero beta, with an infectious ACTIVE source, a susceptible ACTIVE target and no zero factor; at most once per step with the first source kept; '
        'monotone in beta for a fixed set of random numbers; an edge to a non-active agent makes the outcome depend on uninitialised memory; mixing-pool cases lie '
        'in the destination group with positive probability. Probability product / comparison / net_beta / pool probability regenerated from disease.py and networks.py. '
        'Every Infection.infect() call of real runs is recorded (state, edges, effective betas, the random numbers actually drawn) and replayed by the model in Coq.',
   note='Trusted: Coq kernel, translator, instance-level wrappers on Infection.infect / trans_rng.rvs / MixingPool installed by the harness. Effective per-edge betas '
        '(incl. the acts-based sexual-network formula) are taken from the implementation in the run-level replay; float32 products are compared exactly (ambiguity ~1e-8 per edge).',
   technique='Coq proof of the transmission kernel (admissibility, dedup, monotonicity) + in-Coq replay of recorded infect() calls',
   design='5 C12'),
 'C14': dict(
   text='Coq theorems: remove_uids removes exactly the edges touching removed agents; removing the dead from networks and then from the active list keeps all endpoints active; '
        'end_pairs semantics and exact lifetimes of timed edges (present after j updates iff d - j*dt > 0, over Q; the binary64 count-down is refuted for dt = 0.1 and exact for binary steps, over primitive floats); random-network half-edge counts for every permutation; '
        'uid-keyed pair construction is safe while positional construction is refuted by a witness; the Erdos-Renyi pair numbers (combine_rands on unsigned 64-bit draws, replayed bit-exactly in Coq) lie in [0,1] and a pair is an edge exactly when its 64-bit pattern is at most p(2^64-1), whereas the signed reading accepts half of all patterns (defect repaired in /repo). Edge-list op sequences on a real dynamic network are compared with the '
        'model in Coq; a probe between the network phase and transmission checks every built-in network class under births/deaths/pregnancy at every step.',
   note='Trusted: Coq kernel incl. its primitive binary64 floats (PrimFloat.float/sub/ltb appear in Print Assumptions of the two count-down theorems), translator (end_pairs expressions + shape pins), harness (Network.append wrapper for pairing-time eligibility). Partnership eligibility / '
        'no-concurrency of MF/MSM/Embedding are checked on the implementation (probe), not proved. Two genuine defects (ErdosRenyiNet, DiskNet positional edges) were repaired by fix: commits.',
   technique='Coq proofs about edge-list maintenance and timed edges + in-Coq differential evaluation + per-step network probe',
   design='5 C14'),
 'C15': dict(
   text='Coq theorems: counts are filters over the active agents, prevalence lies in [0,1] when the infected are among the living, a series recorded with the '
        'generated bound [:ti+1] is the running sum including the current step (recurrence proved), the sim-level cum_deaths series (generated bound [:ti]) lags one '
        'step (theorem + refutation witness), scaling multiplies exactly the scalable results, pop_scale/total_pop forms are consistent, cumulative sums commute with scaling. '
        'Slice bounds, prevalence expression and pop_scale regenerated from the source; recorded flow series of real runs are replayed by the model in Coq and compared with the real arrays.',
   note='Trusted: Coq kernel, translator, harness (recount analyzer probe). Exports (to_df, to_json, summarize, shrink, save/load) are re-packaging and are tied by execution only. '
        'Known finding: cum_deaths lag (pinned in tests/baseline.json, not repaired).',
   technique='Coq proofs about cumulative series / scaling over generated slice bounds + in-Coq replay of recorded series + recount probe and scaled twins',
   design='5 C15'),
 'C07': dict(
   text='Coq theorems: rational grids start at the start, are uniformly spaced and strictly increasing, have one point per step and end at the last point not after stop; '
        'Gregorian civil<->day-count round trip (month in 1..12, day within the month length incl. the leap rule) and day-by-day monotonicity of the year representation for EVERY day number (one 400-year era swept by the VM and lifted to all integers by the era periodicity of both conversions, Proofs/P_Calendar.v); calendar grids '
        'have exact whole-day spacing from an exact start and never pass stop; date and elapsed-time representations agree for whole-day steps (forced hypothesis) and drift '
        'otherwise (refutation witness); a module on the sim timeline sits on the sim axis. Every vector of real ss.Time objects (numeric, unitless, calendar day/week/year) and '
        'the three make_abstvec branches are compared with the model in Coq; the clauses of the property are evaluated on the real objects.',
   note='Trusted: Coq kernel (vm_compute sweeps over one 146097-day era), translator (unit table, rounding time_ratio), harness. The model computes on the decimal literals the user wrote; '
        'binary64 noise is tolerated at 1e-9 (vectors) and one day (dates derived from a numeric year vector at half-day boundaries). dateutil month stepping is not modelled '
        '(implementation-side clauses only). Known findings: float floor of the grid length, fractional-step date drift, month-end drift.',
   technique='Coq proofs about rational/calendar grids (one-era sweep lifted to every day number by periodicity lemmas) + in-Coq differential evaluation of ss.Time',
   design='5 C07'),
 'C16': dict(
   text='Coq theorems about the GENERATED hazard tails for all units and all dt: per-step probability = rate x units x rel x step length in years for plain-number mortality, '
        'births (number and time-parameter rates) and fertility; probability per year of step is independent of (unit, dt); the time-parameter mortality rate is multiplied by dt twice '
        '(theorem + refutation witness); ageing by k x dt_year; age-bin lookup; routine-delivery conversion compounds to the annual value only when the sim unit is the year (R) and is '
        'unit-blind otherwise; per-act transmission on sexual networks (generated from SexualNetwork.net_beta): hazard per unit time independent of the step and one-unit compounding for a per-act probability, dt applied twice for a time-scaled beta (theorem + refutation). The real hazard functions are called over a (sim unit, dt) x (module unit, dt) x rate-form grid and compared with the model in Coq and with rate x step length.',
   note='Trusted: Coq kernel, translator (isinstance(...TimePar) branches become a boolean parameter), harness (np.random.binomial intercepted to read the births probability). '
        'R theorems use the standard real-number axioms. "Expected events per year" as a statistical statement is not a theorem. Known findings: double dt in Deaths with a TimePar rate '
        '(pinned in baseline.json), unit-blind routine coverage.',
   technique='Coq algebra over generated hazard expressions + in-Coq differential evaluation of the real hazard functions over a unit/dt grid',
   design='5 C16'),
 'C13': dict(
   text='Coq theorems about per-agent compartment machines DEFINED FROM scripts regenerated from the flag updates of step_state / set_prognoses / step_die of SIR, SIS, Measles, '
        'Ebola, Cholera, Gonorrhea, HIV and Syphilis (stage machine; arrows closed under composition within a call): for every flag valuation that is a valid compartment state and every truth assignment of the time conditions, each method yields a valid '
        'state reached along an arrow of the model (exactly-one partition, sub-state inclusions, no return where immunity is permanent), and step_die clears every flag of the dying '
        'agent and touches nobody else; soundness of the finite exhaustive checker is proved (all_vals complete), so the statements are universally quantified. Every real call of those '
        'methods is recorded and replayed through the generated scripts in Coq; a per-step probe evaluates partition, arrows, timers and infection counts for all eight diseases.',
   note='Trusted: Coq kernel, translator (script extraction; time conditions are opaque booleans keyed by their text), harness (class-level wrappers). The ordering of '
        'ti_* timers and the cum_infections identity are decided on the implementation only (oracle), not by a theorem: partial for those clauses. Known finding: latent-stage models '
        'never count infections; fixed: Measles exposed agents were also flagged infected.',
   technique='Coq exhaustive-check-with-soundness-proof over generated per-agent transition scripts + in-Coq replay of recorded method calls',
   design='5 C13'),
 'C20': dict(
   text='Coq theorems about the delivery model whose window adjustment, end point, capacity test and vaccine factor are REGENERATED from interventions.py / sir.py: every routine time point '
        'lies inside [start_year, end_year + 1) (inside [start_year, end_year] for dt >= 1), no grid point of the window is skipped, campaign points are the nearest grid points; the gate is '
        'closed exactly outside the time points and never indexes past a coverage vector as long as the window; recipients = eligible agents whose draw is below the coverage (0 -> nobody, '
        '1 -> everybody, monotone); annual coverage compounds back over a year (R); vaccination touches records and rel_sus of recipients only, and a recipient of a fully effective vaccine '
        'is never a new case of the transmission kernel (composition with the C12 admissibility theorem); for EVERY history of a capacity-limited treatment the number treated per step is '
        '<= capacity, the treated are eligible at that step and were accepted earlier or queued, are treated once and leave the queue, the queue is FIFO; Tx.administer changes only recipients '
        'whose efficacy draw succeeded, per the product table. Real windows, vaccination/screening steps (with the recorded uniform draws), whole treat_num histories and Tx calls are '
        'replayed in Coq; a per-step oracle checks eligibility, window, coverage, capacity and confinement against independently configured values.',
   note='Trusted: Coq kernel, translator (shape pins on every delivery method), harness (class-level wrappers on the delivery classes, bernoulli.filter and Dist.rand). The annual-coverage '
        'theorem is over R (standard real-number axioms). Dx.administer (diagnostic outcomes) and the all-or-nothing vaccine (np.random) are covered by the oracle only. Observations, not '
        'violations: BaseTriage.step tests `self.sim.t in timepoints` and never delivers; campaign_screening/campaign_triage have no coverage_dist and raise on delivery. Fixed: routine window overrun.',
   technique='Coq invariant/induction proofs over generated delivery formulas + in-Coq replay of recorded intervention steps and histories',
   design='5 C20'),
 'C19': dict(
   text='Coq theorems about the pregnancy model whose flag scripts, schedules and maternal-edge tests are REGENERATED from demographics.py / networks.py: for every flag valuation and every truth '
        'assignment of the time tests, update_states / set_prognoses / finish_step keep each woman in exactly one of fecund / pregnant / post-partum and move her only along '
        'fecund->pregnant->post-partum->fecund (or pregnancy loss); the delivery test first succeeds at conception + gestation rounded UP to a whole step (for all rational gestations); a prenatal '
        'edge is kept and active exactly while the delivery test fails, and ends with a dead endpoint; a postnatal edge created at the delivery step ends in [0, 1) steps after the post-partum period; '
        'the child of a pregnancy conceived at minus the gestation is aged in [0, dt_year) at the delivery step, also through burn-in; the links written at conception pair each embryo with exactly the '
        'woman who conceived it and touch nobody else. Every real call of the three methods, every stored schedule, delivery step and embryo age is replayed in Coq; a per-step probe evaluates '
        'ageing, parentage, eligibility at conception, exclusivity, delivery timing and both maternal networks on a configuration grid.',
   note='Trusted: Coq kernel, translator (scripts + expressions + shape pins on make_embryos / make_pregnancies / burn-in loop), harness (class-level wrappers, analyzer probe). Ageing by dt_year per '
        'step is proved in C16 and probed here. Fertile-age / female / fecund eligibility of the conception draw is pinned (zeroing lines) and probed, not derived. float32 storage of ages and timers: '
        'tolerance 1e-4. Closed under the global context.',
   technique='Coq exhaustive-check-with-soundness-proof over generated flag scripts + Q-arithmetic theorems over generated schedule expressions + in-Coq replay of recorded calls',
   design='5 C19'),
 'C17': dict(
   text='Coq theorems about Pars.update whose three type-dispatch tables are REGENERATED from parameters.py (each arm must translate to a recognised action: store, re-parameterise by value / list / '
        'keywords, build a distribution, recurse, or raise TypeError): an unknown name makes a strict update raise KeyNotFound and success implies every name was known; after any successful update every '
        'supplied value is in effect (stored as given, or the existing distribution / time parameter re-parameterised with exactly it) and every other parameter is untouched -- for all stores and '
        'all update dicts; values that are none of number / list / dict / distribution / time parameter / function (strings, None, arrays, modules, tuples) are rejected for distributions and time '
        'parameters; Bernoulli and duration guards; the accepted forms with their effects. The isinstance facts assumed per value kind and the outcome of the real Pars.update on every parameter of '
        'every built-in module class x 15 value forms are compared with the model in Coq; constructor / pars-dict / Sim-level routes, unknown names at every route, equivalent spellings '
        '(bit-identical results) and user-held module objects are evaluated on the implementation.',
   note='Trusted: Coq kernel, translator (dispatch-table extraction; shape pins on check_key_mismatch, Module.update_pars / define_pars, Sim.__init__ merge-and-copy), harness. Updates of module '
        'containers (ndict) and of modules are delegated (outcome class only). Errors raised deeper (Dist.set / TimePar.set) count as rejections. Equivalence of spellings and non-mutation of '
        'user-held objects are decided on the implementation (oracle), not by a theorem: partial for those clauses. Closed under the global context.',
   technique='Coq proofs over generated type-dispatch tables of the parameter updater + in-Coq differential evaluation over all built-in module parameters',
   design='5 C17'),
 'C01': dict(
   text='Coq theorem on an abstract machine (components stepping over a shared state, each seeing only the draws of the distributions named after it, plus the process-wide generator as an explicit '
        'state the environment may perturb before every step): if no component reads the process-wide generator, private and shared states after any number of steps are independent of its '
        'initial state and of every perturbation; the seed of every distribution changes with the base seed. The set of classes that DO draw from the process-wide generator is REGENERATED from '
        'the source (AST scan) and the theorem`s hypothesis is refuted for them (known findings). On real sims: every distribution seed = seed_gen(sha(trace), base) (Coq); the configurations that '
        'advance np.random during a run are exactly those containing a generated global-generator class; results and final agent states are compared bit for bit across process histories '
        '(np.random draws between init and run and at a loop boundary, other sims initialised / run in between, deep-copied twins, a worker process with another PYTHONHASHSEED).',
   note='PARTIAL: the machine is abstract -- that real modules read only their own distributions and the declared state is not derived from the source; it is tied by pins (private generator per '
        'distribution seeded from sha(trace) + base seed, seed reset first in Sim.init), by the generated list of global-generator call sites, and by the differential runs. NumPy SeedSequence / '
        'PCG64 stream distinctness is not proved. Known findings: Births, RandomNet (odd contacts), NCD draw from np.random. Closed under the global context.',
   technique='Coq non-interference proof on an abstract component machine + generated list of global-generator call sites + bit-exact differential runs across process histories',
   design='5 C01'),
 'C02': dict(
   text='Coq theorems on the same abstract machine: a sampling-only component (reads shared state, samples its own distributions) inserted at ANY position of the module list leaves every other '
        'component`s private state and the shared state identical after any number of steps; two independent components may be listed in either order, and disjoint read / write footprints over named arrays (Bernstein`s conditions) are proved sufficient for independence. On real sims: traces and seeds of the '
        'existing distributions are unchanged by every perturbation and equal seed_gen (Coq); results and agent states of the unperturbed modules are compared bit for bit between base and '
        'perturbed runs (sampling-only analyzers / interventions with 1..7 distributions, zero-coverage vaccination, zero-efficacy vaccine, extra independent SIS / SIR, reordered diseases).',
   note='PARTIAL for the same reason as C01: the premise that a real component sees only the draws of its own distributions is tied by pins and differential runs, not derived. Closed under the global context.',
   technique='Coq non-interference / commutation proofs on an abstract component machine + bit-exact differential runs under null perturbations',
   design='5 C02'),
 'C18': dict(
   text='Coq theorems: for every permutation of the replicate indices (any scheduling by any number of workers) filing each result under its index gives exactly the standalone runs with seeds '
        'reseed_gen base i (REGENERATED from single_run: base + i), members have pairwise distinct seeds; the mean and every quantile (linear interpolation on the sorted members) are invariant '
        'under permutation of the members, as is the variance; every quantile and the mean lie between the smallest and largest member, the 0- and 1-quantiles ARE those members, a larger q never '
        'gives a smaller value (low <= median <= high); in-place updating gives the caller`s i-th object exactly the state of the standalone run with seed base + i, keeps the count and is refused on a '
        'length mismatch (MultiSim.run shape-pinned). On real runs: member seeds = reseed_gen (Coq); every member of multi_run / MultiSim (serial, parallel with 1/2/4 workers, in-place on/off, list of sims, '
        'debug) is compared bit for bit with the standalone run of seed base + i; reduce() is compared with NumPy statistics, with the model quantile / mean / variance in Coq, for low <= median <= high within the members` range, and across member permutations.',
   note='PARTIAL: a standalone run as a function of its seed is C01`s conclusion (abstract); process-level scheduling and pickling are exercised, not modelled; the in-place __dict__ update is modelled as taking over the whole state. '
        'Quantile invariance is proved for integer-valued members (Leibniz order), the mean over Q. Fixed: MultiSim debug mode raised. Closed under the global context.',
   technique='Coq proofs of schedule- and order-invariance over the generated reseeding formula + bit-exact comparison of multi-run members with standalone runs',
   design='5 C18'),
 'C05': dict(
   text='Coq theorems over R about the maps from the uniform stream to the variates that starsim itself defines, REGENERATED from distributions.py: uniform (support [low, high) and quantile law '
        'ppf(u) <= x <-> u <= (x - low)/(high - low)), the per-agent path of randint (scaled uniform in [low, high), its integer part in the half-open integer range), Bernoulli (true iff u < p, '
        'monotone in p under a fixed stream, never for p <= 0, always for p >= 1), the explicit lognormal (with the generated implicit parameters exp(mu + sigma^2/2) = mean and '
        '(exp(sigma^2) - 1) exp(2 mu + sigma^2) = std^2, for all mean, std > 0), time-wrapped parameters (variates x exactly the factor), and the discrete choice with probabilities (Model/L1_Choice.v: normalised cumulative sums + insertion index as in NumPy`s Generator.choice and in ss.choice.ppf; every uniform in [0,1) selects an existing option and option i is selected exactly on an interval of length p_i / sum p, for every list p). Q twins of the same source expressions are evaluated in '
        'Coq against recorded (uniform, variate) pairs. For every family of ss.dist_list x {scalar, array, callable} parameters the implementation is compared with the SciPy quantile function '
        'on the same-seed uniform stream (exact) and with the SciPy law (KS / moments, 6 sigma); paths agree, supports, dtypes, empty requests, Bernoulli monotonicity, time scaling over a unit grid.',
   note='PARTIAL: the quantile functions of normal, lognormal, exponential, Poisson, negative binomial, Weibull and gamma are SciPy`s (family and parameter names pinned) and the NumPy generator '
        'methods of the scalar path are oracles: their laws are tested statistically, not proved. R theorems use the standard real-number axioms (sig_forall_dec, sig_not_dec, classic, '
        'functional_extensionality_dep). Fixed: randint per-agent path (AttributeError, closed range).',
   technique='Coq real-analysis proofs over generated sampling maps + in-Coq evaluation of their Q twins + exact / statistical comparison with SciPy on the same uniform stream',
   design='5 C05'),
}

checks = []
for p in props:
    pid = p['id']
    if pid in CLAIMED:
        c = CLAIMED[pid]
        checks.append(dict(property_id=pid, quick_cmd=f'./check {pid} --tier quick', thorough_cmd=f'./check {pid} --tier thorough',
                           evidence_file=f'/verif/evidence/{pid}.json', replay_cmd_template=f'./check {pid} --replay {{path}}',
                           engine='coq-model+translator+correspondence',
                           level_claimed=dict(category='proof', text=c['text'], design_ref=c['design']),
                           level_note=c['note'], technique=c['technique']))
na = [dict(property_id=p['id'], reason='check not built yet in this session (planned: see DESIGN.md section 5); no claim is made')
      for p in props if p['id'] not in CLAIMED]
man = dict(version=1,
  setup_cmd='cd /verif && ./check --translate-all && cd coq && coq_makefile -f _CoqProject -o Makefile && timeout 3000 make -j16',
  hooks=dict(guard='STARSIM_VERIF', enable='no source hooks: checks import /repo in place (PYTHONPATH=/repo) and observe through public API/probe modules',
             baseline_off_cmd='cd /repo && /venv/bin/python -m pytest -ra -q -p no:cacheprovider --timeout=900 --continue-on-collection-errors',
             source_commits=[], add_only=True),
  engines=[dict(name='coq-model+translator+correspondence', path='/verif/check', serves_properties=sorted(CLAIMED),
                kind_free_text='Coq 8.16.1 theorems about a Gallina model; model regenerated from /repo by a fail-closed Python-ast translator (Gen/*.v) '
                               'and tied by differential evaluation inside Coq (vm_compute) against the real starsim objects')],
  checks=checks, not_applicable=na,
  notes='All checks: ./check <ID> --tier quick|thorough. Known findings: /verif/known_findings.json (entries with `demo` carry a witness program under /verif/hunted/ that every run of that property check executes). Seeded mutations: /verif/seeded/ (tools/regress_parallel.sh). Behaviour-preserving refactorings: /verif/refactors/ (tools/try_refactors.sh).')
json.dump(man, open(os.path.join(HERE, 'MANIFEST.json'), 'w'), indent=1)
print('claimed', sorted(CLAIMED), 'not_applicable', len(na))
