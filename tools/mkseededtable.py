#!/usr/bin/env python3
"""Regenerate the table of DESIGN.md §9.6 from seeded/*/meta.json (between the table header and the next heading)."""
import json, glob, os, re
rows = []
for d in sorted(glob.glob('/verif/seeded/*/')):
    m = json.load(open(d + 'meta.json'))
    det = m.get('detected_by') or ''
    if isinstance(det, list): det = '; '.join(map(str, det))
    det = det.replace('|', '/').replace('\n', ' ').strip()
    rows.append(f"| `{os.path.basename(d.rstrip('/'))}` | {det} |")
s = open('/verif/DESIGN.md').read()
head = '| seeded change | caught by |\n|---|---|\n'
i = s.index(head) + len(head); j = s.index('\n### 9.7', i)
s = s[:i] + '\n'.join(rows) + '\n' + s[j:]
s = re.sub(r'All \d+ \(', f'All {len(rows)} (', s, count=1)
open('/verif/DESIGN.md', 'w').write(s)
print(len(rows), 'rows')
