#!/bin/bash
# usage: try_refactors.sh <lanes> <patch.diff>...  -- every behaviour-preserving refactoring against ALL checks, in scratch copies (VERIF_REPO); a concrete
# "violation on implementation" that is not a listed finding would be a FALSE ALARM of the machinery; TIE-ONLY (no-failing-input-found) is the expected worst case.
lanes=$1; shift
printf "%s\n" "$@" > /tmp/rf_all.txt
: > /verif/.refactor.log
ids=$(python3 -c "import json; print(' '.join(c['property_id'] for c in json.load(open('/verif/MANIFEST.json'))['checks']))")
for k in $(seq 1 $lanes); do
  (
    root=/tmp/rf$k; rm -rf $root; mkdir -p $root
    rsync -a --exclude .git --exclude .work --exclude replays --exclude '.regress*' --exclude '.refactor*' /verif/ $root/verif/
    git -C /repo worktree add -q --detach $root/repo HEAD || exit 2
    awk -v k=$k -v n=$lanes 'NR % n == k % n' /tmp/rf_all.txt | while read pf; do
      if ! git -C $root/repo apply --check $pf 2>/dev/null; then echo "$pf: PATCH-DOES-NOT-APPLY" >> /verif/.refactor.log; continue; fi
      git -C $root/repo apply $pf
      res=""
      for id in $ids; do
        out=$(VERIF_REPO=$root/repo $root/verif/check $id 2>&1)
        if echo "$out" | grep "^VIOLATION" | grep -qv "no-failing-input-found"; then res="$res $id:CONCRETE"; echo "$out" | grep -E "violation on implementation|BROKEN" | head -4 | sed "s|^|    [$pf $id] |" >> /verif/.refactor.detail
        elif echo "$out" | grep -q "^VIOLATION"; then res="$res $id:tie"
        elif ! echo "$out" | grep -q "^OK "; then res="$res $id:??"; fi
      done
      git -C $root/repo checkout -- .
      echo "$pf:${res:- all OK}" >> /verif/.refactor.log
    done
    git -C /repo worktree remove --force $root/repo; rm -rf $root
  ) &
done
wait; git -C /repo worktree prune; sort /verif/.refactor.log
